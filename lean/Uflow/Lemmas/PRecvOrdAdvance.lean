import Uflow.Lemmas.PRecvOrdDeliver

/-!
Helper lemmas for C01 / C02 (receiver ordering), part 5: `advanceWindow` field by field
(`AdvFacts`), and preservation of the ordering and ghost invariants by a window advance.
-/

namespace Uflow.PRecv

open Uflow Uflow.Gen Uflow.Codec

theorem foldR_mem (body : State → Nat → R State) (P : State → Prop) (Q : Nat → State → Prop)
    (L0 : List Nat)
    (hstep : ∀ s id, id ∈ L0 → P s → ∃ s', body s id = .ok s' ∧ P s' ∧ Q id s' ∧ ∀ j, Q j s → Q j s') :
    ∀ (L : List Nat) (s : State), (∀ id ∈ L, id ∈ L0) → P s →
      ∃ s', foldR body L s = .ok s' ∧ P s' ∧ (∀ id ∈ L, Q id s') ∧ ∀ j, Q j s → Q j s' := by
  intro L
  induction L with
  | nil => intro s _ hp; exact ⟨s, rfl, hp, fun _ h => (by cases h), fun _ h => h⟩
  | cons id L ih =>
    intro s hsub hp
    obtain ⟨s1, hb, hp1, hq1, hst1⟩ := hstep s id (hsub id List.mem_cons_self) hp
    obtain ⟨s2, hf, hp2, hq2, hst2⟩ := ih s1 (fun j hj => hsub j (List.mem_cons_of_mem _ hj)) hp1
    refine ⟨s2, ?_, hp2, ?_, fun j hj => hst2 j (hst1 j hj)⟩
    · simp only [foldR, hb]; exact hf
    · intro j hj
      rcases List.mem_cons.mp hj with hj | hj
      · rw [hj]; exact hst2 id hq1
      · exact hq2 j hj

/-! ### pass 1: flags -/

/-- What pass 1 and 2 keep of the start state `s0`. -/
structure Keep12 (s0 t : State) : Prop where
  base : t.baseId = s0.baseId
  endId : t.endId = s0.endId
  cb : ∀ c, cbase t c = cbase s0 c
  marker : ∀ k, (lget t.slots k).marker = (lget s0.slots k).marker
  chan : ∀ k, (lget t.slots k).chan = (lget s0.slots k).chan
  flag : ∀ k, (lget t.slots k).dataFlag = true → (lget s0.slots k).dataFlag = true

theorem cbase_set_count (t : State) (c : Nat) (ch : Chan) (hc : t.chans[c]? = some ch) (n : Nat) (c' : Nat) :
    ((t.chans.set c { ch with count := n })[c']?).bind (·.base) = cbase t c' := by
  unfold cbase
  rw [List.getElem?_set]
  split
  · rename_i h
    subst h
    split
    · rw [hc]; rfl
    · rename_i hlt
      rw [List.getElem?_eq_none (by omega)]
  · rfl

/-- A slot update that keeps marker, channel and assembly entry and does not set the data flag. -/
theorem setSlot_keep (t : State) (i : Nat) (x : Slot) (hm : x.marker = (lget t.slots i).marker)
    (hc : x.chan = (lget t.slots i).chan) (ha : x.asm = (lget t.slots i).asm)
    (hf : x.dataFlag = true → (lget t.slots i).dataFlag = true) :
    (∀ k, (lget (setSlot t i x).slots k).marker = (lget t.slots k).marker) ∧
    (∀ k, (lget (setSlot t i x).slots k).chan = (lget t.slots k).chan) ∧
    (∀ k, (lget (setSlot t i x).slots k).asm = (lget t.slots k).asm) ∧
    (∀ k, (lget (setSlot t i x).slots k).dataFlag = true → (lget t.slots k).dataFlag = true) := by
  refine ⟨?_, ?_, ?_, ?_⟩ <;> intro k <;> rw [lget_setSlot] <;> split
  · rename_i hk; rw [hk]; exact hm
  · rfl
  · rename_i hk; rw [hk]; exact hc
  · rfl
  · rename_i hk; rw [hk]; exact ha
  · rfl
  · rename_i hk; rw [hk]; exact hf
  · exact id

theorem awBody1_keep {W M : Nat} {t t' : State} (hinv : Inv W M t) (id : Nat)
    (h : awBody1 t id = .ok t') :
    t'.baseId = t.baseId ∧ t'.endId = t.endId ∧ (∀ c, cbase t' c = cbase t c) ∧
    (∀ k, (lget t'.slots k).marker = (lget t.slots k).marker) ∧
    (∀ k, (lget t'.slots k).chan = (lget t.slots k).chan) ∧
    (∀ k, (lget t'.slots k).asm = (lget t.slots k).asm) ∧
    (∀ k, (lget t'.slots k).dataFlag = true → (lget t.slots k).dataFlag = true) := by
  unfold awBody1 at h
  rw [widx_eq hinv] at h
  simp only at h
  split at h
  · split at h
    · cases h
    · rename_i ch hch
      split at h
      · cases h
      · cases h
        obtain ⟨a, b, c, d⟩ := setSlot_keep t (wi W id)
          { getSlot t (wi W id) with entryFlag := false, dataFlag := false, data := none } rfl rfl rfl
          (fun hc => by cases hc)
        exact ⟨rfl, rfl, fun c => cbase_set_count t _ ch hch _ c, a, b, c, d⟩
  · cases h
    obtain ⟨a, b, c, d⟩ := setSlot_keep t (wi W id) { getSlot t (wi W id) with entryFlag := false } rfl rfl rfl (fun hh => hh)
    exact ⟨rfl, rfl, fun _ => rfl, a, b, c, d⟩

/-! ### pass 2: assembly entries -/

theorem clearAsm_keep (t t' : State) (i : Nat) (h : clearAsm t i = .ok t') :
    t'.baseId = t.baseId ∧ t'.endId = t.endId ∧ t'.chans = t.chans ∧
    (∀ k, (lget t'.slots k).marker = (lget t.slots k).marker) ∧
    (∀ k, (lget t'.slots k).chan = (lget t.slots k).chan) ∧
    (∀ k, (lget t'.slots k).dataFlag = (lget t.slots k).dataFlag) ∧
    (∀ k, k ≠ i → (lget t'.slots k).asm = (lget t.slots k).asm) := by
  have hset : ∀ (a : Nat), let u : State := { setSlot t i { getSlot t i with asm := .opened } with alloc := a }
      u.baseId = t.baseId ∧ u.endId = t.endId ∧ u.chans = t.chans ∧
      (∀ k, (lget u.slots k).marker = (lget t.slots k).marker) ∧
      (∀ k, (lget u.slots k).chan = (lget t.slots k).chan) ∧
      (∀ k, (lget u.slots k).dataFlag = (lget t.slots k).dataFlag) ∧
      (∀ k, k ≠ i → (lget u.slots k).asm = (lget t.slots k).asm) := by
    intro a
    refine ⟨rfl, rfl, rfl, ?_, ?_, ?_, ?_⟩
    · intro k
      show (lget (setSlot t i _).slots k).marker = _
      rw [lget_setSlot]; split
      · rename_i hk; rw [hk, getSlot_eq]
      · rfl
    · intro k
      show (lget (setSlot t i _).slots k).chan = _
      rw [lget_setSlot]; split
      · rename_i hk; rw [hk, getSlot_eq]
      · rfl
    · intro k
      show (lget (setSlot t i _).slots k).dataFlag = _
      rw [lget_setSlot]; split
      · rename_i hk; rw [hk, getSlot_eq]
      · rfl
    · intro k hk
      show (lget (setSlot t i _).slots k).asm = _
      rw [lget_setSlot, if_neg hk]
  unfold clearAsm at h
  simp only at h
  split at h
  · cases h; exact ⟨rfl, rfl, rfl, fun _ => rfl, fun _ => rfl, fun _ => rfl, fun _ _ => rfl⟩
  · split at h
    · cases h
    · cases h; exact hset _
  · split at h
    · cases h
    · cases h; exact hset _

/-! ### pass 3: channel base markers -/

theorem tryUnset_facts {W M : Nat} {t t' : State} (hinv : Inv W M t) (x : Nat)
    (h : tryUnsetChannelBase t x = .ok t') :
    t'.baseId = t.baseId ∧ t'.endId = t.endId ∧
    (∀ k, (lget t'.slots k).chan = (lget t.slots k).chan) ∧
    (∀ k, (lget t'.slots k).dataFlag = (lget t.slots k).dataFlag) ∧
    (∀ k, (lget t'.slots k).asm = (lget t.slots k).asm) ∧
    (∀ k, (lget t'.slots k).marker = if k = wi W x then none else (lget t.slots k).marker) ∧
    (∀ c, cbase t' c = if (lget t.slots (wi W x)).marker = some c then none else cbase t c) := by
  unfold tryUnsetChannelBase at h
  rw [widx_eq hinv] at h
  simp only at h
  split at h
  · rename_i hm
    cases h
    rw [getSlot_eq] at hm
    refine ⟨rfl, rfl, fun _ => rfl, fun _ => rfl, fun _ => rfl, ?_, ?_⟩
    · intro k; split
      · rename_i hk; rw [hk, hm]
      · rfl
    · intro c; rw [hm, if_neg (by intro hc; cases hc)]
  · rename_i c hm
    rw [getSlot_eq] at hm
    split at h
    · cases h
    · rename_i ch hch
      cases h
      have hch' : t.chans[c]? = some ch := hch
      have hl : ∀ k, lget (setSlot t (wi W x) { getSlot t (wi W x) with marker := none }).slots k =
          if k = wi W x then { lget t.slots (wi W x) with marker := none } else lget t.slots k := by
        intro k; rw [lget_setSlot, getSlot_eq]
      refine ⟨rfl, rfl, ?_, ?_, ?_, ?_, ?_⟩
      · intro k
        show (lget (setSlot t _ _).slots k).chan = _
        rw [hl]; split
        · rename_i hk; rw [hk]
        · rfl
      · intro k
        show (lget (setSlot t _ _).slots k).dataFlag = _
        rw [hl]; split
        · rename_i hk; rw [hk]
        · rfl
      · intro k
        show (lget (setSlot t _ _).slots k).asm = _
        rw [hl]; split
        · rename_i hk; rw [hk]
        · rfl
      · intro k
        show (lget (setSlot t _ _).slots k).marker = _
        rw [hl]; split
        · rfl
        · rfl
      · intro c'
        rw [hm]
        rw [cbase_set_base t c ch hch' none _ rfl c']
        split
        · rename_i hcc; rw [hcc, if_pos rfl]
        · rename_i hcc; rw [if_neg (by intro hc; cases hc; exact hcc rfl)]

/-- Invariant of pass 3, relative to its start state `s2`, the window base `B` and the advance `δ`. -/
structure P3 (W M B δ : Nat) (s2 t : State) : Prop where
  inv : Inv W M t
  base : t.baseId = B
  endId : t.endId = s2.endId
  cbm : ∀ c b, cbase t c = some b → (lget t.slots (wi W b)).marker = some c
  mcb : ∀ k c, (lget t.slots k).marker = some c → ∃ b, cbase t c = some b ∧ wi W b = k
  cbr : ∀ c b, cbase t c = some b → b < 2^20 ∧ 1 ≤ pidSub b B ∧ pidSub b B ≤ W
  rel : ∀ c b, cbase t c = some b → cbase s2 c = some b
  rel2 : ∀ c, cbase t c = none → ∀ b, cbase s2 c = some b → pidSub b B ≤ δ
  chan : ∀ k, (lget t.slots k).chan = (lget s2.slots k).chan
  flag : ∀ k, (lget t.slots k).dataFlag = (lget s2.slots k).dataFlag
  asm : ∀ k, (lget t.slots k).asm = (lget s2.slots k).asm

theorem awBody3_step {W M B δ : Nat} (hW : WOk W) (hB : B < 2^20) (hδ : δ ≤ W) (s2 : State) (L0 : List Nat)
    (hL : ∀ id, id ∈ L0 ↔ id < 2^20 ∧ pidSub id B < δ)
    (t : State) (id : Nat) (hid : id ∈ L0) (p : P3 W M B δ s2 t) :
    ∃ t', awBody3 t id = .ok t' ∧ P3 W M B δ s2 t' ∧ (∀ c, cbase t' c ≠ some (pidAdd id 1)) ∧
      ∀ j, (∀ c, cbase t c ≠ some (pidAdd j 1)) → (∀ c, cbase t' c ≠ some (pidAdd j 1)) := by
  obtain ⟨t', ht', hinv', -⟩ := tryUnsetChannelBase_inv p.inv (pidAdd id 1)
  obtain ⟨f1, f2, f3, f4, f5, f6, f7⟩ := tryUnset_facts p.inv (pidAdd id 1) ht'
  obtain ⟨hidlt, hido⟩ := (hL id).mp hid
  have hnlt := pidAdd_lt id 1
  have hoff : pidSub (pidAdd id 1) B = pidSub id B + 1 := off_succ _ _ (by have := hW.le; omega)
  -- a base id with the index of `id+1` is `id+1`
  have huniq : ∀ c b, cbase t c = some b → wi W b = wi W (pidAdd id 1) → b = pidAdd id 1 := by
    intro c b hcb hwi
    obtain ⟨h1, h2, h3⟩ := p.cbr c b hcb
    exact wi_inj hW b _ B h1 hnlt hB (by omega) (by omega) hwi
  refine ⟨t', ht', ?_, ?_, ?_⟩
  · refine ⟨hinv', by rw [f1]; exact p.base, by rw [f2]; exact p.endId, ?_, ?_, ?_, ?_, ?_,
      fun k => (f3 k).trans (p.chan k), fun k => (f4 k).trans (p.flag k), fun k => (f5 k).trans (p.asm k)⟩
    · intro c b hcb
      rw [f7] at hcb
      split at hcb
      · cases hcb
      · rename_i hm
        rw [f6]
        split
        · rename_i hwi
          have := p.cbm c b hcb
          rw [hwi] at this
          exact absurd this hm
        · exact p.cbm c b hcb
    · intro k c hm
      rw [f6] at hm
      split at hm
      · cases hm
      · rename_i hk
        obtain ⟨b, hb, hwb⟩ := p.mcb k c hm
        refine ⟨b, ?_, hwb⟩
        rw [f7]
        split
        · rename_i hm2
          obtain ⟨b2, hb2, hwb2⟩ := p.mcb _ c hm2
          rw [hb] at hb2; cases hb2
          exact absurd (hwb.symm.trans hwb2) hk
        · exact hb
    · intro c b hcb
      rw [f7] at hcb
      split at hcb
      · cases hcb
      · exact p.cbr c b hcb
    · intro c b hcb
      rw [f7] at hcb
      split at hcb
      · cases hcb
      · exact p.rel c b hcb
    · intro c hcb b hb2
      rw [f7] at hcb
      split at hcb
      · rename_i hm
        obtain ⟨b', hb', hwb'⟩ := p.mcb _ c hm
        have := p.rel c b' hb'
        rw [hb2] at this; cases this
        have := huniq c b hb' hwb'
        rw [this, hoff]; omega
      · exact p.rel2 c hcb b hb2
  · intro c hcb
    rw [f7] at hcb
    split at hcb
    · cases hcb
    · rename_i hm
      exact hm (p.cbm c _ hcb)
  · intro j hj c hcb
    rw [f7] at hcb
    split at hcb
    · cases hcb
    · exact hj c hcb

/-! ### the whole of `advanceWindow` -/

/-- Field-by-field description of `advanceWindow s nb = .ok s'` (`L` the ids passed). -/
structure AdvFacts (W : Nat) (s s' : State) (nb : Nat) : Prop where
  base : s'.baseId = nb
  endId : s'.endId = if pidSub s.endId s.baseId < pidSub nb s.baseId then nb else s.endId
  flag : ∀ k, (lget s'.slots k).dataFlag = true →
    (lget s.slots k).dataFlag = true ∧ ∀ id, id < 2^20 → pidSub id s.baseId < pidSub nb s.baseId → wi W id ≠ k
  chan : ∀ k, (lget s'.slots k).chan = (lget s.slots k).chan
  asm : ∀ k, (∀ id, id < 2^20 → pidSub id s.baseId < pidSub nb s.baseId → wi W id ≠ k) →
    (lget s'.slots k).asm = (lget s.slots k).asm
  cbm : ∀ c b, cbase s' c = some b → (lget s'.slots (wi W b)).marker = some c
  mcb : ∀ k c, (lget s'.slots k).marker = some c → ∃ b, cbase s' c = some b ∧ wi W b = k
  csome : ∀ c b, cbase s' c = some b → cbase s c = some b ∧ pidSub nb s.baseId < pidSub b s.baseId
  cnone : ∀ c, cbase s' c = none → ∀ b, cbase s c = some b → pidSub b s.baseId ≤ pidSub nb s.baseId

theorem awStart_facts (s : State) (nb : Nat) :
    (awStart s nb).baseId = s.baseId ∧ (awStart s nb).slots = s.slots ∧ (awStart s nb).chans = s.chans ∧
    (awStart s nb).endId = if pidSub s.endId s.baseId < pidSub nb s.baseId then nb else s.endId := by
  unfold awStart
  by_cases h : pidSub s.endId s.baseId < pidSub nb s.baseId
  · rw [if_pos h, if_pos h]; exact ⟨rfl, rfl, rfl, rfl⟩
  · rw [if_neg h, if_neg h]; exact ⟨rfl, rfl, rfl, rfl⟩

theorem advanceWindow_facts {W M : Nat} (hW : WOk W) {s s' : State} (hinv : Inv W M s) (h : Ord W s)
    (nb : Nat) (hnb : nb < 2^20) (hδ : pidSub nb s.baseId ≤ W) (ha : advanceWindow s nb = .ok s') :
    AdvFacts W s s' nb := by
  rw [advanceWindow_eq] at ha
  obtain ⟨w1, w2, w3, w4⟩ := awStart_facts s nb
  have h0 := awStart_inv hinv nb hnb
  have hcb0 : ∀ c, cbase (awStart s nb) c = cbase s c := by intro c; unfold cbase; rw [w3]
  generalize awStart s nb = s0 at *
  have hL : ∀ id, id ∈ idsTo s0.baseId nb ↔ id < 2^20 ∧ pidSub id s.baseId < pidSub nb s.baseId := by
    intro id
    constructor
    · intro hm
      have hlt := idsTo_lt s0.baseId nb h0.blt id hm
      exact ⟨hlt, by rw [← w1]; exact (mem_idsTo id s0.baseId nb hlt h0.blt).mp hm⟩
    · rintro ⟨hlt, ho⟩
      exact (mem_idsTo id s0.baseId nb hlt h0.blt).mpr (by rw [w1]; exact ho)
  -- pass 1
  obtain ⟨s1, hf1, ⟨h1, k1⟩, hq1, -⟩ := foldR_mem awBody1 (fun t => Inv W M t ∧ Keep12 s0 t ∧
      ∀ k, (lget t.slots k).asm = (lget s0.slots k).asm) (Unflagged W)
    (idsTo s0.baseId nb)
    (by
      intro t id _ hp
      obtain ⟨hpi, hpk, hpa⟩ := hp
      obtain ⟨t', hb, hi', hu, hst⟩ := awBody1_inv t id hpi
      obtain ⟨a1, a2, a3, a4, a5, a6, a7⟩ := awBody1_keep hpi id hb
      refine ⟨t', hb, ⟨hi', ⟨?_, ?_, ?_, ?_, ?_, ?_⟩, ?_⟩, hu, hst⟩
      · rw [a1]; exact hpk.base
      · rw [a2]; exact hpk.endId
      · intro c; rw [a3]; exact hpk.cb c
      · intro k; rw [a4]; exact hpk.marker k
      · intro k; rw [a5]; exact hpk.chan k
      · intro k hk; exact hpk.flag k (a7 k hk)
      · intro k; rw [a6]; exact hpa k)
    (idsTo s0.baseId nb) s0 (fun _ hj => hj)
    ⟨h0, ⟨rfl, rfl, fun _ => rfl, fun _ => rfl, fun _ => rfl, fun _ hk => hk⟩, fun _ => rfl⟩
  obtain ⟨k1, k1a⟩ := k1
  -- pass 2
  obtain ⟨s2, hf2, ⟨h2, hu2, k2, k2a⟩, -, -⟩ := foldR_mem awBody2 (fun t => Inv W M t ∧
      (∀ j ∈ idsTo s0.baseId nb, Unflagged W j t) ∧ Keep12 s0 t ∧
      ∀ k, (∀ id ∈ idsTo s0.baseId nb, wi W id ≠ k) → (lget t.slots k).asm = (lget s0.slots k).asm)
    (fun _ _ => True) (idsTo s0.baseId nb)
    (by
      intro t id hid hp
      obtain ⟨hpi, hpu, hpk, hpa⟩ := hp
      obtain ⟨t', hb, hi', hu'⟩ := awBody2_inv (idsTo s0.baseId nb) t id hid ⟨hpi, hpu⟩
      have hb' : clearAsm t (wi W id) = .ok t' := by rw [← widx_eq hpi]; exact hb
      obtain ⟨a1, a2, a3, a4, a5, a6, a7⟩ := clearAsm_keep t t' _ hb'
      refine ⟨t', hb, ⟨hi', hu', ⟨?_, ?_, ?_, ?_, ?_, ?_⟩, ?_⟩, trivial, fun _ _ => trivial⟩
      · rw [a1]; exact hpk.base
      · rw [a2]; exact hpk.endId
      · intro c; unfold cbase; rw [a3]; exact hpk.cb c
      · intro k; rw [a4]; exact hpk.marker k
      · intro k; rw [a5]; exact hpk.chan k
      · intro k hk; rw [a6] at hk; exact hpk.flag k hk
      · intro k hk
        rw [a7 k (fun hc => hk id hid hc.symm)]
        exact hpa k hk)
    (idsTo s0.baseId nb) s1 (fun _ hj => hj) ⟨h1, hq1, k1, fun k _ => k1a k⟩
  -- pass 3
  have hB : s0.baseId < 2^20 := h0.blt
  have p3 : P3 W M s0.baseId (pidSub nb s.baseId) s2 s2 := by
    refine ⟨h2, k2.base, rfl, ?_, ?_, ?_, fun _ _ h => h, ?_, fun _ => rfl, fun _ => rfl, fun _ => rfl⟩
    · intro c b hcb
      rw [k2.cb, hcb0] at hcb
      rw [k2.marker, w2]
      exact h.cbm c b hcb
    · intro k c hm
      rw [k2.marker, w2] at hm
      rw [k2.cb, hcb0]
      exact h.mcb k c hm
    · intro c b hcb
      rw [k2.cb, hcb0] at hcb
      rw [w1]
      exact h.cbr c b hcb
    · intro c hcb b hb; rw [hcb] at hb; cases hb
  obtain ⟨s3, hf3, p3', hq3, -⟩ := foldR_mem awBody3 (P3 W M s0.baseId (pidSub nb s.baseId) s2)
    (fun j t => ∀ c, cbase t c ≠ some (pidAdd j 1)) (idsTo s0.baseId nb)
    (fun t id hid p => awBody3_step hW hB hδ s2 (idsTo s0.baseId nb) (by intro j; rw [hL j, w1]) t id hid p)
    (idsTo s0.baseId nb) s2 (fun _ hj => hj) p3
  rw [awLoops, idLoop_eq _ _ _ _ h0.blt hnb, hf1, bindR_ok, idLoop_eq _ _ _ _ h0.blt hnb, hf2, bindR_ok,
    idLoop_eq _ _ _ _ h0.blt hnb, hf3, bindR_ok] at ha
  cases ha
  -- assemble
  have hcbS : ∀ c, cbase ({ s3 with baseId := nb } : State) c = cbase s3 c := fun _ => rfl
  refine ⟨rfl, ?_, ?_, ?_, ?_, ?_, ?_, ?_, ?_⟩
  · show s3.endId = _
    rw [p3'.endId, k2.endId, w4]
  · intro k hk
    have hk' : (lget s3.slots k).dataFlag = true := hk
    rw [p3'.flag] at hk'
    refine ⟨by rw [← w2]; exact k2.flag k hk', ?_⟩
    intro id hid hido hwi
    have := hu2 id ((hL id).mpr ⟨hid, hido⟩)
    unfold Unflagged at this
    rw [hwi, hk'] at this
    cases this
  · intro k
    show (lget s3.slots k).chan = _
    rw [p3'.chan, k2.chan, w2]
  · intro k hk
    show (lget s3.slots k).asm = _
    rw [p3'.asm, k2a k (fun id hid => hk id ((hL id).mp hid).1 ((hL id).mp hid).2), w2]
  · exact p3'.cbm
  · exact p3'.mcb
  · intro c b hcb
    have hcb' : cbase s3 c = some b := hcb
    have hs2 := p3'.rel c b hcb'
    rw [k2.cb, hcb0] at hs2
    refine ⟨hs2, ?_⟩
    obtain ⟨hb1, hb2, hb3⟩ := h.cbr c b hs2
    rcases Nat.lt_or_ge (pidSub nb s.baseId) (pidSub b s.baseId) with hlt | hge
    · exact hlt
    · exfalso
      -- `b = id + 1` for a passed id
      have hblt := hinv.blt
      have hc1 := pidSub_cases b s.baseId hb1 hblt
      let id := pidSub b 1
      have hidlt : id < 2^20 := pidSub_lt _ _
      have hid1 : pidAdd id 1 = b := by
        show pidAdd (pidSub b 1) 1 = b
        simp only [pidSub_def, pidAdd_def]; omega
      have hido : pidSub id s.baseId < pidSub nb s.baseId := by
        have hc2 := pidSub_cases id s.baseId hidlt hblt
        have hc3 := pidAdd_cases id hidlt
        omega
      exact hq3 id ((hL id).mpr ⟨hidlt, hido⟩) c (by rw [hid1]; exact hcb')
  · intro c hcb b hb
    have := p3'.rel2 c hcb b (by rw [k2.cb, hcb0]; exact hb)
    rw [w1] at this
    exact this


/-- An undelivered packet inside the new window was inside the old one. -/
theorem adv_inwin {W M : Nat} (hW : WOk W) {s s' : State} (hinv : Inv W M s) (nb : Nat) (hnb : nb < 2^20)
    (hδ : pidSub nb s.baseId ≤ W) (F : AdvFacts W s s' nb) (x : Nat) (hx : x < 2^20)
    (hxo : pidSub x nb < W) (hf : (lget s'.slots (wi W x)).dataFlag = true) :
    pidSub x s.baseId = pidSub x nb + pidSub nb s.baseId ∧ pidSub x s.baseId < W ∧
    (lget s.slots (wi W x)).dataFlag = true := by
  have hle := hW.le
  have hblt := hinv.blt
  obtain ⟨hfs, hno⟩ := F.flag _ hf
  have hun := off_unshift x s.baseId nb hblt hnb (by omega)
  refine ⟨hun, ?_, hfs⟩
  rcases Nat.lt_or_ge (pidSub x s.baseId) W with hlt | hge
  · exact hlt
  · exfalso
    have hidlt : pidSub x W < 2^20 := pidSub_lt _ _
    have hido : pidSub (pidSub x W) s.baseId + W = pidSub x s.baseId := by
      have h1 := pidSub_cases x s.baseId hx hblt
      have h2 := pidSub_cases (pidSub x W) s.baseId hidlt hblt
      have h3 := pidSub_cases x W hx (by omega)
      omega
    exact hno (pidSub x W) hidlt (by omega) (wi_eq_of_off_add hW x _ s.baseId hblt hido.symm).symm

theorem advance_ord {W M : Nat} (hW : WOk W) {s s' : State} (hinv : Inv W M s) (h : Ord W s)
    (nb : Nat) (hnb : nb < 2^20) (hδ : pidSub nb s.baseId ≤ W) (F : AdvFacts W s s' nb) : Ord W s' := by
  have hle := hW.le
  have hblt := hinv.blt
  have hew := h.ewin
  have hsh : ∀ b, b < 2^20 → pidSub nb s.baseId ≤ pidSub b s.baseId →
      pidSub b nb = pidSub b s.baseId - pidSub nb s.baseId := fun b _ hb => off_shift b s.baseId nb hblt hnb hb
  refine ⟨?_, ?_, ?_, F.cbm, F.mcb, ?_, ?_⟩
  · rw [F.base, F.endId]
    split
    · rw [pidSub_self]; exact Nat.zero_le _
    · rw [hsh _ hinv.elt (by omega)]; omega
  · intro x hx hxo hf
    rw [F.base] at hxo ⊢
    obtain ⟨h1, h2, h3⟩ := adv_inwin hW hinv nb hnb hδ F x hx hxo hf
    have := h.fin x hx h2 h3
    rw [F.endId, if_neg (by omega), hsh _ hinv.elt (by omega)]
    omega
  · intro c b hcb
    obtain ⟨h1, h2⟩ := F.csome c b hcb
    obtain ⟨h3, h4, h5⟩ := h.cbr c b h1
    rw [F.base, hsh b h3 (by omega)]
    exact ⟨h3, by omega, by omega⟩
  · intro c b x hcb hx hxb
    obtain ⟨h1, h2⟩ := F.csome c b hcb
    obtain ⟨h3, h4, h5⟩ := h.cbr c b h1
    obtain ⟨h6, h7⟩ := h.cbd c b x h1 hx hxb
    have hxo : pidSub x s.baseId + 1 = pidSub b s.baseId := by
      have c1 := pidSub_cases x s.baseId hx hblt
      have c2 := pidSub_cases b s.baseId h3 hblt
      have c3 := pidAdd_cases x hx
      omega
    refine ⟨?_, ?_⟩
    · cases hfl : (lget s'.slots (wi W x)).dataFlag with
      | false => rfl
      | true => rw [(F.flag _ hfl).1] at h6; cases h6
    · rw [F.asm]
      · exact h7
      · intro id hid hido hwi
        have := wi_inj hW id x s.baseId hid hx hblt (by omega) (by omega) hwi
        subst this
        omega
  · intro x hx hxo hf b hcb
    rw [F.base] at hxo ⊢
    obtain ⟨h1, h2, h3⟩ := adv_inwin hW hinv nb hnb hδ F x hx hxo hf
    rw [F.chan] at hcb
    obtain ⟨h4, h5⟩ := F.csome _ b hcb
    obtain ⟨h6, -, -⟩ := h.cbr _ b h4
    have := h.fcb x hx h2 h3 b h4
    rw [hsh b h6 (by omega)]
    omega

theorem advance_gi {W M : Nat} {b0 adv : Nat} {log : List LogE} {s s' : State} (hinv : Inv W M s)
    (h : Ord W s) (g : GI W b0 adv log s) (nb : Nat) (hnb : nb < 2^20) (F : AdvFacts W s s' nb) :
    GI W b0 (adv + pidSub nb s.baseId) log s' := by
  have hblt := hinv.blt
  have hsh : ∀ b, b < 2^20 → pidSub nb s.baseId ≤ pidSub b s.baseId →
      pidSub b nb = pidSub b s.baseId - pidSub nb s.baseId := fun b _ hb => off_shift b s.baseId nb hblt hnb hb
  refine ⟨?_, g.gseq, g.gchan, ?_, ?_, ?_, g.gord, g.gpar⟩
  · rw [F.base]
    have := g.gbase
    have := pidSub_cases nb s.baseId hnb hblt
    omega
  · intro e he
    have := g.gwin e he
    omega
  · intro e he
    have hlt := g.glt e he
    rw [F.base]
    cases hc : cbase s' e.chan with
    | none =>
      simp only [Option.getD_none]
      rw [pidSub_self]
      cases hcs : cbase s e.chan with
      | none =>
        rw [hcs] at hlt
        simp only [Option.getD_none] at hlt
        rw [pidSub_self] at hlt
        omega
      | some b =>
        rw [hcs] at hlt
        simp only [Option.getD_some] at hlt
        have := F.cnone e.chan hc b hcs
        omega
    | some b =>
      simp only [Option.getD_some]
      obtain ⟨h1, h2⟩ := F.csome _ b hc
      obtain ⟨h3, -, -⟩ := h.cbr _ b h1
      rw [h1] at hlt
      simp only [Option.getD_some] at hlt
      rw [hsh b h3 (by omega)]
      omega
  · intro c b hcb
    obtain ⟨h1, h2⟩ := F.csome c b hcb
    obtain ⟨h3, -, -⟩ := h.cbr c b h1
    obtain ⟨e, he, h4, h5⟩ := g.gcb c b h1
    refine ⟨e, he, h4, ?_⟩
    rw [F.base, hsh b h3 (by omega)]
    omega

end Uflow.PRecv
