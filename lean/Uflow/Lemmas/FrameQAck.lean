import Uflow.Model.FrameQ

/-!
Lemmas about `FrameQ.acknowledgeGroup` (property C15): specification vocabulary
(`claimedNonce`, `EntryLe`, `AckRel`), the first (validation) loop, and the second loop `ackLoop`.
-/

namespace Uflow.FrameQ

open Uflow Uflow.Codec

/-! ### specification vocabulary -/

/-- Nonce of the logged frame `id` (`false` when the frame is not in the log). -/
def nonceAt (s : State) (id : Nat) : Bool :=
  match getFrame s id with
  | some e => e.nonce
  | none => false

/-- XOR of the nonces of the frames *claimed* by `ack` (bit `i` set, `i < bitfieldSize`). -/
def claimedNonce (s : State) (ack : AckGroup) : Bool :=
  ((List.range (bitfieldSize ack.bitfield)).filter (fun i => ack.bitfield / 2^i % 2 = 1)).foldl
    (fun acc i => acc != nonceAt s (wadd32 ack.baseId i)) false

/-- How a log entry may evolve under `acknowledgeGroup`: unchanged, or freshly marked acked. -/
def EntryLe (e e' : Entry) : Prop :=
  e' = e ∨ (e.acked = false ∧ e' = { e with acked := true, refs := [] })

theorem EntryLe.refl (e : Entry) : EntryLe e e := Or.inl rfl

theorem EntryLe.of_acked {e e' : Entry} (h : EntryLe e e') (ha : e.acked = true) : e' = e := by
  rcases h with h | ⟨h, _⟩
  · exact h
  · rw [ha] at h; cases h

theorem EntryLe.acked_mono {e e' : Entry} (h : EntryLe e e') (ha : e.acked = true) :
    e'.acked = true := by rw [h.of_acked ha]; exact ha

theorem EntryLe.trans {a b c : Entry} (h1 : EntryLe a b) (h2 : EntryLe b c) : EntryLe a c := by
  rcases h1 with h1 | ⟨ha, hb⟩
  · subst h1; exact h2
  · have : b.acked = true := by rw [hb]
    have hc := h2.of_acked this
    subst hc; exact Or.inr ⟨ha, hb⟩

theorem EntryLe.fields {e e' : Entry} (h : EntryLe e e') :
    e'.size = e.size ∧ e'.sendTime = e.sendTime ∧ e'.nonce = e.nonce ∧
      e'.rateLimited = e.rateLimited := by
  rcases h with h | ⟨_, h⟩ <;> subst h <;> simp

/-- Everything `acknowledgeGroup`'s second loop may do to the state: only `frames` (entry-wise
`EntryLe`, same length), `reorder` and `intervals` change. -/
structure AckRel (s s' : State) : Prop where
  logNext : s'.logNext = s.logNext
  logBase : s'.logBase = s.logBase
  lastFeedback : s'.lastFeedback = s.lastFeedback
  ackData : s'.ackData = s.ackData
  winBase : s'.winBase = s.winBase
  winSize : s'.winSize = s.winSize
  tailSize : s'.tailSize = s.tailSize
  rateLimited : s'.rateLimited = s.rateLimited
  len : s'.frames.length = s.frames.length
  frames : ∀ (k : Nat) (e : Entry), s.frames[k]? = some e → ∃ e', s'.frames[k]? = some e' ∧ EntryLe e e'

theorem AckRel.refl (s : State) : AckRel s s :=
  ⟨rfl, rfl, rfl, rfl, rfl, rfl, rfl, rfl, rfl, fun _ e h => ⟨e, h, EntryLe.refl e⟩⟩

theorem AckRel.trans {a b c : State} (h1 : AckRel a b) (h2 : AckRel b c) : AckRel a c where
  logNext := h2.logNext.trans h1.logNext
  logBase := h2.logBase.trans h1.logBase
  lastFeedback := h2.lastFeedback.trans h1.lastFeedback
  ackData := h2.ackData.trans h1.ackData
  winBase := h2.winBase.trans h1.winBase
  winSize := h2.winSize.trans h1.winSize
  tailSize := h2.tailSize.trans h1.tailSize
  rateLimited := h2.rateLimited.trans h1.rateLimited
  len := h2.len.trans h1.len
  frames := fun k e h => by
    obtain ⟨e1, he1, hl1⟩ := h1.frames k e h
    obtain ⟨e2, he2, hl2⟩ := h2.frames k e1 he1
    exact ⟨e2, he2, hl1.trans hl2⟩

/-- Converse direction of `AckRel.frames`. -/
theorem AckRel.frames_back {s s' : State} (h : AckRel s s') (k : Nat) (e' : Entry)
    (hk : s'.frames[k]? = some e') : ∃ e, s.frames[k]? = some e ∧ EntryLe e e' := by
  have hlt : k < s.frames.length := by
    have := (List.getElem?_eq_some_iff.mp hk).1
    rw [h.len] at this; exact this
  have hs : s.frames[k]? = some s.frames[k] := List.getElem?_eq_getElem hlt
  obtain ⟨e2, he2, hl⟩ := h.frames k _ hs
  rw [hk] at he2; cases he2
  exact ⟨_, hs, hl⟩

/-- Marking one un-acked entry. -/
theorem AckRel.set (s : State) (k : Nat) (e : Entry) (hk : s.frames[k]? = some e)
    (ha : e.acked = false) :
    AckRel s { s with frames := s.frames.set k { e with acked := true, refs := [] } } where
  logNext := rfl
  logBase := rfl
  lastFeedback := rfl
  ackData := rfl
  winBase := rfl
  winSize := rfl
  tailSize := rfl
  rateLimited := rfl
  len := List.length_set
  frames := fun j x hj => by
    have hlt : k < s.frames.length := (List.getElem?_eq_some_iff.mp hk).1
    by_cases hjk : k = j
    · subst hjk
      rw [hk] at hj; cases hj
      exact ⟨_, List.getElem?_set_self hlt, Or.inr ⟨ha, rfl⟩⟩
    · exact ⟨x, by simp only [List.getElem?_set_ne hjk]; exact hj, EntryLe.refl x⟩

/-! ### `notifyAck` only touches `reorder` and `intervals` -/

theorem notifyAck_ok {s s' : State} {id : Nat} {rtt : Option Nat}
    (h : notifyAck s id rtt = .ok s') :
    ∃ r l, s' = { s with reorder := r, intervals := l } := by
  unfold notifyAck at h
  split at h
  · split at h
    · cases h
    · split at h
      · cases h
      · cases h; exact ⟨_, _, rfl⟩
  · cases h; exact ⟨_, _, rfl⟩

theorem notifyAck_rel {s s' : State} {id : Nat} {rtt : Option Nat}
    (h : notifyAck s id rtt = .ok s') : AckRel s s' ∧ s'.frames = s.frames := by
  obtain ⟨r, l, rfl⟩ := notifyAck_ok h
  exact ⟨⟨rfl, rfl, rfl, rfl, rfl, rfl, rfl, rfl, rfl, fun _ e h => ⟨e, h, EntryLe.refl e⟩⟩, rfl⟩

/-! ### first loop: presence of all covered frames and the claimed nonce -/

/-- Step function of the first loop of `acknowledgeGroup`. -/
def nonceStep (s : State) (ack : AckGroup) (acc : Option Bool) (i : Nat) : Option Bool :=
  match acc, getFrame s (wadd32 ack.baseId i) with
  | some nz, some e => some (if ack.bitfield / 2^i % 2 = 1 then (nz != e.nonce) else nz)
  | _, _ => none

/-- Tail of `acknowledgeGroup` after the second loop. -/
def ackFinish (s : State) (lst tot : Nat) (rl : Bool) (fr : List (Nat × Nat)) :
    State × List (Nat × Nat) :=
  if tot = 0 then (s, fr) else
  let ad : AckData := match s.ackData with
    | some d => { lastSendTime := max d.lastSendTime lst, totalAckSize := d.totalAckSize + tot, rateLimited := d.rateLimited || rl }
    | none => { lastSendTime := lst, totalAckSize := tot, rateLimited := rl }
  ({ s with ackData := some ad }, fr)

/-- Continuation of `acknowledgeGroup` after the second loop. -/
def ackAfterLoop (r : R (State × Nat × Nat × Bool × List (Nat × Nat))) :
    R (State × List (Nat × Nat)) :=
  match r with
  | .error t => .error t
  | .ok (s', lst, tot, rl, fr) => .ok (ackFinish s' lst tot rl fr)

theorem ackAfterLoop_ok (s' : State) (lst tot : Nat) (rl : Bool) (fr : List (Nat × Nat)) :
    ackAfterLoop (.ok (s', lst, tot, rl, fr)) = .ok (ackFinish s' lst tot rl fr) := rfl

theorem ackAfterLoop_error (t : Trap) : ackAfterLoop (.error t) = .error t := rfl

theorem acknowledgeGroup_eq (s : State) (ack : AckGroup) (rtt : Option Nat) :
    acknowledgeGroup s ack rtt =
      if bitfieldSize ack.bitfield = 0 then .ok (s, []) else
      match (List.range (bitfieldSize ack.bitfield)).foldl (nonceStep s ack) (some false) with
      | none => .ok (s, [])
      | some t =>
        if ack.nonce ≠ t then .ok (s, []) else
        ackAfterLoop (ackLoop ack rtt (List.range (bitfieldSize ack.bitfield)) s 0 0 false []) := by
  unfold acknowledgeGroup
  simp only []
  split
  · rfl
  · show (match List.foldl (nonceStep s ack) _ _ with | none => _ | some t => _) = _
    generalize List.foldl (nonceStep s ack) _ _ = x
    cases x with
    | none => rfl
    | some t =>
      simp only []
      split
      · rfl
      · generalize ackLoop ack rtt _ s 0 0 false [] = y
        cases y with
        | error t => rfl
        | ok v =>
          obtain ⟨s', lst, tot, rl, fr⟩ := v
          simp only [ackAfterLoop, ackFinish]
          split <;> rfl

theorem nonceStep_none (s : State) (ack : AckGroup) (i : Nat) : nonceStep s ack none i = none := by
  unfold nonceStep; split
  · rename_i h _; cases h
  · rfl

theorem nonceStep_missing (s : State) (ack : AckGroup) (acc : Option Bool) (i : Nat)
    (h : getFrame s (wadd32 ack.baseId i) = none) : nonceStep s ack acc i = none := by
  unfold nonceStep; split
  · rename_i _ h2; rw [h] at h2; cases h2
  · rfl

theorem nonceStep_some (s : State) (ack : AckGroup) (a : Bool) (i : Nat) (e : Entry)
    (h : getFrame s (wadd32 ack.baseId i) = some e) :
    nonceStep s ack (some a) i = some (if ack.bitfield / 2^i % 2 = 1 then (a != e.nonce) else a) := by
  unfold nonceStep; rw [h]

theorem foldl_nonceStep_none (s : State) (ack : AckGroup) (l : List Nat) :
    l.foldl (nonceStep s ack) none = none := by
  induction l with
  | nil => rfl
  | cons i l ih => rw [List.foldl_cons, nonceStep_none]; exact ih

theorem foldl_nonceStep_missing (s : State) (ack : AckGroup) (l : List Nat) (acc : Option Bool)
    (i : Nat) (hi : i ∈ l) (h : getFrame s (wadd32 ack.baseId i) = none) :
    l.foldl (nonceStep s ack) acc = none := by
  induction l generalizing acc with
  | nil => cases hi
  | cons j l ih =>
    rw [List.foldl_cons]
    rcases List.mem_cons.mp hi with rfl | hi
    · rw [nonceStep_missing _ _ _ _ h]; exact foldl_nonceStep_none s ack l
    · exact ih _ hi

theorem foldl_nonceStep_some (s : State) (ack : AckGroup) (l : List Nat) (a : Bool)
    (h : ∀ i ∈ l, getFrame s (wadd32 ack.baseId i) ≠ none) :
    l.foldl (nonceStep s ack) (some a) =
      some ((l.filter (fun i => ack.bitfield / 2^i % 2 = 1)).foldl
        (fun acc i => acc != nonceAt s (wadd32 ack.baseId i)) a) := by
  induction l generalizing a with
  | nil => rfl
  | cons j l ih =>
    have hj := h j (List.mem_cons_self)
    cases hf : getFrame s (wadd32 ack.baseId j) with
    | none => exact absurd hf hj
    | some e =>
      rw [List.foldl_cons, nonceStep_some _ _ _ _ _ hf, ih _ (fun i hi => h i (List.mem_cons_of_mem _ hi))]
      rw [List.filter_cons]
      by_cases hb : ack.bitfield / 2^j % 2 = 1
      · simp only [hb, decide_true, if_true, List.foldl_cons, nonceAt, hf]
      · simp only [hb, decide_false, if_false, Bool.false_eq_true]

/-! ### second loop -/

theorem ackLoop_nil (ack : AckGroup) (rtt : Option Nat) (s : State) (lst tot : Nat) (rl : Bool)
    (fr : List (Nat × Nat)) : ackLoop ack rtt [] s lst tot rl fr = .ok (s, lst, tot, rl, fr) := rfl

/-- Copy of `ackLoop` with `notifyAck` abstracted. Only used to obtain the unfolding equation
`ackLoop_cons`: the kernel cannot cheaply check `ackLoop.eq_2` directly, because comparing two
different `match notifyAck … with` terms makes it normalise the (stuck) call `notifyAck …`, which
is very expensive. With an opaque `na` the equation is cheap, and `ackLoop = ackLoopG notifyAck`
holds by (syntactic) `rfl`. -/
def ackLoopG (na : State → Nat → Option Nat → R State) (ack : AckGroup) (rtt : Option Nat) :
    List Nat → State → Nat → Nat → Bool → List (Nat × Nat) →
    R (State × Nat × Nat × Bool × List (Nat × Nat))
  | [], s, lst, tot, rl, fr => .ok (s, lst, tot, rl, fr)
  | i :: rest, s, lst, tot, rl, fr =>
    let id := wadd32 ack.baseId i
    let k := wsub32 id s.logBase
    match s.frames[k]? with
    | none => .error .unwrap
    | some e =>
      let rl := rl || e.rateLimited
      if ack.bitfield / 2^i % 2 = 1 ∧ ¬ e.acked then
        let s := { s with frames := s.frames.set k { e with acked := true, refs := [] } }
        match na s id rtt with
        | .error t => .error t
        | .ok s => ackLoopG na ack rtt rest s (max lst e.sendTime) (tot + e.size) rl (fr ++ e.refs)
      else ackLoopG na ack rtt rest s lst tot rl fr

set_option smartUnfolding false in
theorem ackLoop_eq_G (ack : AckGroup) (rtt : Option Nat) :
    ackLoop ack rtt = ackLoopG notifyAck ack rtt := rfl

theorem ackLoop_cons (ack : AckGroup) (rtt : Option Nat) (i : Nat) (rest : List Nat) (s : State)
    (lst tot : Nat) (rl : Bool) (fr : List (Nat × Nat)) :
    ackLoop ack rtt (i :: rest) s lst tot rl fr =
      match s.frames[wsub32 (wadd32 ack.baseId i) s.logBase]? with
      | none => .error .unwrap
      | some e =>
        if ack.bitfield / 2^i % 2 = 1 ∧ ¬ e.acked then
          match notifyAck { s with frames := s.frames.set (wsub32 (wadd32 ack.baseId i) s.logBase)
                                      { e with acked := true, refs := [] } } (wadd32 ack.baseId i) rtt with
          | .error t => .error t
          | .ok s2 => ackLoop ack rtt rest s2 (max lst e.sendTime) (tot + e.size)
                        (rl || e.rateLimited) (fr ++ e.refs)
        else ackLoop ack rtt rest s lst tot (rl || e.rateLimited) fr := by
  rw [ackLoop_eq_G, ackLoopG]

/-- If every listed frame is in the log and every claimed one is already acked, the second loop
changes nothing (only the discarded `rateLimited` accumulator may differ). -/
theorem ackLoop_noop (ack : AckGroup) (rtt : Option Nat) (l : List Nat) (s : State)
    (lst tot : Nat) (rl : Bool) (fr : List (Nat × Nat))
    (h : ∀ i ∈ l, ∃ e, getFrame s (wadd32 ack.baseId i) = some e ∧
          (ack.bitfield / 2^i % 2 = 1 → e.acked = true)) :
    ∃ rl', ackLoop ack rtt l s lst tot rl fr = .ok (s, lst, tot, rl', fr) := by
  induction l generalizing rl with
  | nil => exact ⟨rl, rfl⟩
  | cons i l ih =>
    obtain ⟨e, he, ha⟩ := h i List.mem_cons_self
    rw [ackLoop_cons]
    unfold getFrame at he
    rw [he]
    simp only []
    rw [if_neg (by intro ⟨hb, hn⟩; exact hn (ha hb))]
    exact ih _ (fun j hj => h j (List.mem_cons_of_mem _ hj))

/-- Main invariant of the second loop. -/
theorem ackLoop_spec (ack : AckGroup) (rtt : Option Nat) (l : List Nat) :
    ∀ (s : State) (lst tot : Nat) (rl : Bool) (fr : List (Nat × Nat))
      (s' : State) (lst' tot' : Nat) (rl' : Bool) (fr' : List (Nat × Nat)),
      ackLoop ack rtt l s lst tot rl fr = .ok (s', lst', tot', rl', fr') →
      AckRel s s' ∧
      (∀ i ∈ l, ack.bitfield / 2^i % 2 = 1 →
        ∃ e', s'.frames[wsub32 (wadd32 ack.baseId i) s.logBase]? = some e' ∧ e'.acked = true) ∧
      (∀ p ∈ fr', p ∈ fr ∨ ∃ i ∈ l, ack.bitfield / 2^i % 2 = 1 ∧
        ∃ e, s.frames[wsub32 (wadd32 ack.baseId i) s.logBase]? = some e ∧ e.acked = false ∧
          p ∈ e.refs) := by
  induction l with
  | nil =>
    intro s lst tot rl fr s' lst' tot' rl' fr' h
    rw [ackLoop_nil] at h
    cases h
    exact ⟨AckRel.refl _, fun _ hi => (by cases hi), fun p hp => Or.inl hp⟩
  | cons i l ih =>
    intro s lst tot rl fr s' lst' tot' rl' fr' h
    rw [ackLoop_cons] at h
    cases hk : s.frames[wsub32 (wadd32 ack.baseId i) s.logBase]? with
    | none => rw [hk] at h; cases h
    | some e =>
      rw [hk] at h
      simp only [] at h
      by_cases hc : ack.bitfield / 2^i % 2 = 1 ∧ ¬ e.acked
      · rw [if_pos hc] at h
        have hacked : e.acked = false := by
          cases hx : e.acked with
          | false => rfl
          | true => exact absurd hx hc.2
        split at h
        · cases h
        · rename_i s2 hn
          obtain ⟨hrel2, hfr2⟩ := notifyAck_rel hn
          have hrel1 := AckRel.set s _ e hk hacked
          obtain ⟨hrel3, hack3, hmem3⟩ := ih _ _ _ _ _ _ _ _ _ _ h
          have hrel12 := hrel1.trans hrel2
          have hlt : wsub32 (wadd32 ack.baseId i) s.logBase < s.frames.length :=
            (List.getElem?_eq_some_iff.mp hk).1
          refine ⟨hrel12.trans hrel3, ?_, ?_⟩
          · intro j hj hbj
            rcases List.mem_cons.mp hj with rfl | hj
            · have h2 : s2.frames[wsub32 (wadd32 ack.baseId j) s.logBase]? =
                  some { e with acked := true, refs := [] } := by
                rw [hfr2]; exact List.getElem?_set_self hlt
              obtain ⟨e3, he3, hl3⟩ := hrel3.frames _ _ h2
              exact ⟨e3, he3, hl3.acked_mono rfl⟩
            · have := hack3 j hj hbj
              rw [hrel12.logBase] at this
              exact this
          · intro p hp
            rcases hmem3 p hp with hp | ⟨j, hj, hbj, e2, he2, ha2, hp2⟩
            · rcases List.mem_append.mp hp with hp | hp
              · exact Or.inl hp
              · exact Or.inr ⟨i, List.mem_cons_self, hc.1, e, hk, hacked, hp⟩
            · refine Or.inr ⟨j, List.mem_cons_of_mem _ hj, hbj, e2, ?_, ha2, hp2⟩
              rw [hrel12.logBase, hfr2] at he2
              by_cases hkj : wsub32 (wadd32 ack.baseId i) s.logBase = wsub32 (wadd32 ack.baseId j) s.logBase
              · rw [← hkj, List.getElem?_set_self hlt] at he2
                cases he2; cases ha2
              · rw [List.getElem?_set_ne hkj] at he2; exact he2
      · rw [if_neg hc] at h
        obtain ⟨hrel3, hack3, hmem3⟩ := ih _ _ _ _ _ _ _ _ _ _ h
        refine ⟨hrel3, ?_, ?_⟩
        · intro j hj hbj
          rcases List.mem_cons.mp hj with rfl | hj
          · have hacked : e.acked = true := by
              cases hx : e.acked with
              | true => rfl
              | false => exact absurd ⟨hbj, by rw [hx]; exact Bool.false_ne_true⟩ hc
            obtain ⟨e3, he3, hl3⟩ := hrel3.frames _ _ hk
            exact ⟨e3, he3, hl3.acked_mono hacked⟩
          · exact hack3 j hj hbj
        · intro p hp
          rcases hmem3 p hp with hp | ⟨j, hj, rest⟩
          · exact Or.inl hp
          · exact Or.inr ⟨j, List.mem_cons_of_mem _ hj, rest⟩

end Uflow.FrameQ
