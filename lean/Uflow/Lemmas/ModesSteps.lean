import Uflow.Lemmas.Modes

/-!
C12: one-step equations of the model loops `resendLoop` and `pendingInner` (what exactly happens to
the entry at the head of the queue), stated on the model functions themselves.
-/

namespace Uflow.Modes

open Uflow Uflow.Gen Uflow.Codec Uflow.HalfConn Uflow.Wire Uflow.Heap

variable {F : Type}

/-- `resendLoop`: an entry whose packet has left the window, or whose fragment is acknowledged, is
popped without `dfePush`; the loop continues with the popped queue and nothing else changed. -/
theorem resendLoop_skip (fuel : Nat) (e : Emit F) (entry : REntry)
    (h0 : e.s.resend[0]? = some entry) (hsk : Skipped e.s.ps entry.uid entry.fid) :
    ∃ h, heapPop e.s.resend = some (entry, h) ∧
      resendLoop (fuel + 1) e = resendLoop fuel { e with s := { e.s with resend := h } } := by
  obtain ⟨h, hpop⟩ := heapPop_isSome e.s.resend entry h0
  refine ⟨h, hpop, ?_⟩
  rw [resendLoop]
  simp only [h0, hpop]
  rcases hsk with hn | ⟨p, hp, ha⟩
  · simp only [hn]
  · simp only [hp, ha, if_true]

/-- `resendLoop`: an entry that is due and successfully pushed is re-queued with
`resendTime = nowMs + rttMs·2^sendCount`; the new entry is in the resend queue the loop
continues with. -/
theorem resendLoop_push (fuel : Nat) (e e1 : Emit F) (entry : REntry) (p : PSend.Pending)
    (h0 : e.s.resend[0]? = some entry) (h1 : PSend.findPacket e.s.ps entry.uid = some p)
    (h2 : entry.fid ∉ p.acked) (h3 : ¬ entry.resendTime > e.s.nowMs)
    (h4 : dfePush e p entry.fid true = .ok (e1, none)) (hres : e1.s.resend = e.s.resend) :
    ∃ h, heapPop e.s.resend = some (entry, h) ∧
      resendLoop (fuel + 1) e = resendLoop fuel { e1 with s := { e1.s with resend := heapPush h ⟨entry.uid, entry.fid, e1.s.nowMs + e1.s.rttMs * 2 ^ entry.sendCount, min (entry.sendCount + 1) MAX_SEND_COUNT⟩ } } ∧
      (⟨entry.uid, entry.fid, e1.s.nowMs + e1.s.rttMs * 2 ^ entry.sendCount, min (entry.sendCount + 1) MAX_SEND_COUNT⟩ : REntry) ∈
        (heapPush h ⟨entry.uid, entry.fid, e1.s.nowMs + e1.s.rttMs * 2 ^ entry.sendCount, min (entry.sendCount + 1) MAX_SEND_COUNT⟩).toList := by
  obtain ⟨h, hpop⟩ := heapPop_isSome e.s.resend entry h0
  refine ⟨h, hpop, ?_, by rw [mem_heapPush]; exact .inl rfl⟩
  rw [resendLoop]
  simp only [h0, h1, h2, h3, if_false, h4, hres, hpop]

/-- `pendingInner`: a head entry that is skipped is popped, nothing else changes. -/
theorem pendingInner_skip (fuel : Nat) (e : Emit F) (entry : PEntry) (rest : List PEntry)
    (h0 : e.s.pending = entry :: rest) (hsk : Skipped e.s.ps entry.uid entry.fid) :
    pendingInner (fuel + 1) e = pendingInner fuel { e with s := { e.s with pending := rest } } := by
  rw [pendingInner]
  simp only [h0]
  rcases hsk with hn | ⟨p, hp, ha⟩
  · simp only [hn]
  · simp only [hp, ha, if_true]

/-- `pendingInner`: a head entry that is successfully pushed leaves the pending queue; it enters
the resend queue (with `resendTime = nowMs + rttMs`) iff its `resend` flag is set. -/
theorem pendingInner_push (fuel : Nat) (e e1 : Emit F) (entry : PEntry) (rest : List PEntry)
    (p : PSend.Pending) (h0 : e.s.pending = entry :: rest)
    (h1 : PSend.findPacket e.s.ps entry.uid = some p) (h2 : entry.fid ∉ p.acked)
    (h3 : ¬ (entry.fid = 0 ∧ p.expired e.s.flushId = true))
    (h4 : dfePush e p entry.fid entry.resend = .ok (e1, none)) :
    pendingInner (fuel + 1) e = pendingInner fuel { e1 with s :=
      if entry.resend then
        { e1.s with pending := rest, resend := heapPush e1.s.resend ⟨entry.uid, entry.fid, e1.s.nowMs + e1.s.rttMs, 1⟩ }
      else { e1.s with pending := rest } } := by
  rw [pendingInner]
  simp only [h0, h1, h2, if_false, h3, h4]

/-- `pendingInner`: the head entry is fragment 0 of a TimeSensitive packet that was queued for
another flush (so none of its fragments has been sent yet): the whole pending queue is cleared,
nothing is pushed. -/
theorem pendingInner_expired (fuel : Nat) (e : Emit F) (entry : PEntry) (rest : List PEntry)
    (p : PSend.Pending) (h0 : e.s.pending = entry :: rest)
    (h1 : PSend.findPacket e.s.ps entry.uid = some p) (h2 : entry.fid ∉ p.acked)
    (h3 : entry.fid = 0 ∧ p.expired e.s.flushId = true) :
    pendingInner (fuel + 1) e = pendingInner fuel { e with s := { e.s with pending := [] } } := by
  rw [pendingInner]
  simp only [h0, h1]
  rw [if_neg h2, if_pos h3]

end Uflow.Modes
