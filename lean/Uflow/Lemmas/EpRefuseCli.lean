import Uflow.Lemmas.EndpointClientExamples
import Uflow.Lemmas.EndpointServerHandshake

/-!
C07 (refusals), part 3: the client reports a handshake error only for an error frame echoing the
nonce of its own SYN, while pending; afterwards it is `fin` for good.
-/

namespace Uflow.EpRefuse

open Uflow Uflow.Gen Uflow.Codec Uflow.HalfConn Uflow.Endpoint

variable {H : Type}

/-- Frame level: the only transition of `handle_frame` that adds an `error` event is the refusal
transition. -/
theorem cli_error_frame (hc : HC H) (c c' : Client H) (f : Frame) (nowMs nowNs : Nat) (out : List (List Nat))
    (h : c.handleFrame hc f nowMs nowNs = .ok (c', out)) (e : ErrorType)
    (hm : CEvent.error e ∈ c'.eventsOut) (hn : CEvent.error e ∉ c.eventsOut) :
    ∃ ln req rt rc sends he, c.state = .pending ln req rt rc sends ∧ f = .hsError ln he ∧ e = errOfHs he ∧
      c' = { c with eventsOut := c.eventsOut ++ [CEvent.error e], state := .fin } ∧ out = [] := by
  rcases Client.handleFrame_cases hc c c' f nowMs nowNs out h with
    ⟨rfl, _⟩ | ⟨ln, req, rt, rc, sends, n, r, p, a, _, _, rfl, _⟩ | ⟨ln, hh, t, sig, n, r, p, a, _, _, rfl, _⟩ |
    ⟨ln, req, rt, rc, sends, he, hs, rfl, rfl, rfl⟩ | ⟨ln, hh, t, sig, h', pkts, _, _, _, rfl, _⟩ |
    ⟨req, rt, rc, _, _, rfl, _⟩ | ⟨t, _, _, rfl, _⟩ | ⟨req, rt, rc, _, _, rfl, _⟩ |
    ⟨ln, hh, t, sig, h', _, _, _, rfl, _⟩
  · exact absurd hm hn
  · simp at hm; exact absurd hm hn
  · exact absurd hm hn
  · have : e = errOfHs he := by
      simp only [List.mem_append, List.mem_singleton] at hm
      rcases hm with hm | hm
      · exact absurd hm hn
      · injection hm
    subst this
    exact ⟨ln, req, rt, rc, sends, he, hs, rfl, rfl, rfl, rfl⟩
  · simp at hm; exact absurd hm hn
  · simp at hm; exact absurd hm hn
  · exact absurd hm hn
  · simp at hm; exact absurd hm hn
  · exact absurd hm hn

/-- Datagram-loop level: an `error` event that appears during `handle_frames` was caused by a datagram
that decodes to an error frame echoing the nonce `ln` of the client, which was pending until then
(so nothing before it changed the client). -/
theorem cli_error_arrivals (hc : HC H) (c c2 : Client H) (nowMs nowNs : Nat) (arrivals s2 : List (List Nat))
    (h : c.arrivalsPhase hc nowMs nowNs arrivals = .ok (c2, s2)) (e : ErrorType)
    (hm : CEvent.error e ∈ c2.eventsOut) (hn : CEvent.error e ∉ c.eventsOut) :
    ∃ pre b post ln req rt rc sends he, arrivals = pre ++ b :: post ∧
      c.arrivalsPhase hc nowMs nowNs pre = .ok (c, []) ∧
      c.state = .pending ln req rt rc sends ∧ decodesTo b (.hsError ln he) ∧ e = errOfHs he := by
  unfold Client.arrivalsPhase at h
  obtain ⟨pre, x, post, b1, b2, e1, e2, e3, e4, e5⟩ :=
    foldlM_first_change (fun acc : Client H × List (List Nat) => CEvent.error e ∈ acc.1.eventsOut) _
      arrivals (c, []) (c2, s2) hn hm h
  unfold Client.frameStep at e3
  split at e3
  · cases e3; exact absurd e5 e4
  · rename_i f hdec
    split at e3
    · cases e3
    · rename_i c' out hfr
      cases e3
      obtain ⟨ln, req, rt, rc, sends, he, hs, rfl, rfl, _, _⟩ := cli_error_frame hc b1.1 c' f nowMs nowNs out hfr e e5 e4
      have hpre : c.arrivalsPhase hc nowMs nowNs pre = .ok (b1.1, b1.2) := e2
      obtain ⟨hb, hs1⟩ := Client.arrivalsPhase_pending_back hc c b1.1 nowMs nowNs pre b1.2 hpre ln req ⟨rt, rc, sends, hs⟩
      rw [hb] at hs
      rw [hb, hs1] at hpre
      exact ⟨pre, x, post, ln, req, rt, rc, sends, he, e1, hpre, hs, hdec, rfl⟩

/-- Run level: a client created by `Client.connect` that delivers a handshake error (anything but
`timeout`) delivers nothing else — in particular no `connect` —, is `fin`, and stays so: whatever
happens afterwards, no event is delivered and nothing is sent. -/
theorem cli_error_run (hc : HC H) (ep : EpConfig) (now : Nat) (rng : Rng) (ops : List COp)
    (c' : Client H) (sent : List (List Nat)) (evs : List CEvent)
    (h : Client.run hc (Client.connect ep now rng).1 ops = .ok (c', sent, evs))
    (e : ErrorType) (hne : e ≠ .timeout) (hm : CEvent.error e ∈ evs) :
    evs = [CEvent.error e] ∧ CEvent.connect ∉ evs ∧ (∃ he, e = errOfHs he) ∧ c'.state = .fin ∧
    ∀ ops2 c'' sent2 evs2, Client.run hc c' ops2 = .ok (c'', sent2, evs2) →
      evs2 = [] ∧ sent2 = [] ∧ c''.state = .fin := by
  obtain ⟨he0, p', hrun, -⟩ := Client.run_monitor hc ops _ c' sent evs h rfl .idle (by simp [Client.connect, Compat])
  have hevs : evs = [CEvent.error e] := by
    rcases CPhase.run_idle evs p' hrun with ⟨rfl, _⟩ | ⟨e', rfl, _⟩ | ⟨pkts, tail, rfl, ht⟩
    · cases hm
    · simp only [List.mem_singleton] at hm
      injection hm with h'
      rw [h']
    · exfalso
      simp only [List.mem_cons, List.mem_append, List.mem_map, reduceCtorEq, false_or, and_false, exists_false] at hm
      rcases ht with ⟨rfl, _⟩ | ⟨rfl | rfl, _⟩
      · cases hm
      · simp at hm
      · simp only [List.mem_singleton] at hm
        injection hm with h'
        exact hne h'
  subst hevs
  have hnc : CEvent.connect ∉ [CEvent.error e] := by simp
  obtain ⟨k, _, _, hcase⟩ := Client.run_pending hc ops _ c' sent _ _ _ _ _ _ rfl rfl h hnc
  have hfin : (∃ he, e = errOfHs he) ∧ c'.state = .fin := by
    rcases hcase with ⟨h1, _⟩ | ⟨⟨he, h1⟩, h2⟩ | ⟨h1, _⟩
    · cases h1
    · simp only [List.cons.injEq, and_true] at h1
      injection h1 with h'
      exact ⟨⟨he, h'⟩, h2⟩
    · simp only [List.cons.injEq, and_true] at h1
      injection h1 with h'
      exact absurd h' hne
  refine ⟨rfl, hnc, hfin.1, hfin.2, ?_⟩
  intro ops2 c'' sent2 evs2 h2
  obtain ⟨_, _, a3, _, a5⟩ := Client.run_terminal hc ops2 c' c'' sent2 evs2 (Or.inl hfin.2) he0 h2
  obtain ⟨b1, b2⟩ := a5 hfin.2
  exact ⟨a3, b2, b1⟩

end Uflow.EpRefuse
