import Uflow.Lemmas.HcCovLoops
import Uflow.Lemmas.HcSysInv

/-!
C01Hc (sync frames), sender side, part 3: the coverage invariant for the pair — `CV h.em h.A` holds in
every reachable state of `HcPair`, for every schedule.
-/

namespace Uflow.HcCov

open Uflow Uflow.Gen Uflow.Codec Uflow.HalfConn Uflow.PSend Uflow.HcSys Uflow.HcFrame
open Uflow.PRecv (bindR bindR_ok)
open Uflow.Rate (FloatOps)
open Uflow.Modes (InPending InResend)

variable {F : Type}

theorem cv_frag {em : List Emitted} {s : State F} (h : CV em s) (uid fid : Nat) :
    CV em { s with ps := ackFragment s.ps uid fid } where
  len := h.len
  uids := uidInv_ackFragment s.ps uid fid h.uids
  cov := by
    intro w' hw' x hx hrel
    simp only [ackFragment, List.mem_map] at hw'
    obtain ⟨w, hw, rfl⟩ := hw'
    by_cases hc : w.packet.uid = uid ∧ ¬ fid ∈ w.packet.acked
    · rw [if_pos hc] at hx ⊢
      obtain ⟨c1, c2⟩ := h.cov w hw x hx hrel
      refine ⟨c1, fun f hf => ?_⟩
      rcases c2 f hf with c | c | c
      · exact Or.inl (List.mem_cons_of_mem _ c)
      · exact Or.inr (Or.inl c)
      · exact Or.inr (Or.inr c)
    · rw [if_neg hc] at hx ⊢
      exact h.cov w hw x hx hrel
  pf := h.pf
  pu := h.pu

theorem cv_ack {em : List Emitted} {s : State F} (h : CV em s) (rb : Nat) (ps' : PSend.State)
    (ha : acknowledge s.ps rb = .ok ps') : CV em { s with ps := ps' } where
  len := by
    obtain ⟨_, hn, _⟩ := acknowledge_suffix s.ps ps' rb ha
    show em.length = ps'.nextUid
    rw [hn]; exact h.len
  uids := uidInv_acknowledge s.ps ps' rb ha h.uids
  cov := by
    intro w hw x hx hrel
    obtain ⟨⟨dr, hwd⟩, _, _⟩ := acknowledge_suffix s.ps ps' rb ha
    exact h.cov w (by rw [hwd]; exact List.mem_append_right _ hw) x hx hrel
  pf := h.pf
  pu := h.pu

theorem cv_ackSteps {em : List Emitted} {s : State F} (h : CV em s) {ps' : PSend.State}
    (ha : AckSteps s.ps ps') : CV em { s with ps := ps' } := by
  induction ha with
  | refl => exact h
  | frag uid fid _ ih => exact cv_frag ih uid fid
  | ack rb _ hack ih => exact cv_ack ih rb _ hack

theorem cv_dispatch {em : List Emitted} {s s' : State F} (h : CV em s) (bytes : List Nat)
    (hd : dispatch s bytes = .ok s') : CV em s' := by
  unfold dispatch at hd
  cases hdec : decode bytes with
  | none => rw [hdec] at hd; cases hd; exact h
  | some fr =>
    rw [hdec] at hd
    cases fr with
    | data id nonce dgs =>
      simp only at hd
      obtain ⟨q, hp⟩ := handleDataFrame_frame s s' id nonce dgs hd
      exact h.congr hp q.1 q.2.1
    | sync nf np =>
      simp only at hd
      obtain ⟨q, hp⟩ := handleSyncFrame_frame s s' nf np hd
      exact h.congr hp q.1 q.2.1
    | ack fb pb acks =>
      simp only at hd
      obtain ⟨q, ha⟩ := handleAckFrame_frame s s' fb pb acks hd
      exact (cv_ackSteps h ha).congr rfl q.1 q.2.1
    | syn v n r p a => simp only [Except.ok.injEq] at hd; rw [← hd]; exact h
    | synAck na n r p a => simp only [Except.ok.injEq] at hd; rw [← hd]; exact h
    | hsAck na => simp only [Except.ok.injEq] at hd; rw [← hd]; exact h
    | hsError na e => simp only [Except.ok.injEq] at hd; rw [← hd]; exact h
    | disconnect => simp only [Except.ok.injEq] at hd; rw [← hd]; exact h
    | disconnectAck => simp only [Except.ok.injEq] at hd; rw [← hd]; exact h

/-- **The coverage invariant is kept by every step of the pair.** -/
theorem cv_step (ops : FloatOps F) {h h' : HcPair F} (hi : PairInv h) (hc : CV h.em h.A) (op : POp)
    (hs : HcSys.stepP ops h op = .ok h') : CV h'.em h'.A := by
  cases op with
  | sendA d c m =>
    simp only [HcSys.stepP] at hs
    split at hs
    · cases hs
      exact ⟨hc.len, hc.uids, hc.cov, hc.pf, hc.pu⟩
    · cases hs; exact hc
  | flushA =>
    simp only [HcSys.stepP] at hs
    cases hfl : flush h.A with
    | error t => rw [hfl] at hs; cases hs
    | ok r =>
      obtain ⟨a', out⟩ := r
      rw [hfl, bindR_ok] at hs
      cases hs
      exact flush_cv h.A a' out hi.a hc hfl
  | stepA now =>
    simp only [HcSys.stepP] at hs
    cases hst : step ops h.A now with
    | error t => rw [hst] at hs; cases hs
    | ok a' =>
      rw [hst, bindR_ok] at hs
      cases hs
      obtain ⟨_, e1, e2, e3, _⟩ := step_frame ops h.A a' now hst
      exact hc.congr e1 e2 e3
  | stepB now =>
    simp only [HcSys.stepP] at hs
    cases hst : step ops h.B now with
    | error t => rw [hst] at hs; cases hs
    | ok b' => rw [hst, bindR_ok] at hs; cases hs; exact hc
  | recvB =>
    simp only [HcSys.stepP] at hs
    cases hr : receive h.B with
    | error t => rw [hr] at hs; cases hs
    | ok r => rw [hr, bindR_ok] at hs; cases hs; exact hc
  | flushB =>
    simp only [HcSys.stepP] at hs
    cases hfl : flush h.B with
    | error t => rw [hfl] at hs; cases hs
    | ok r => rw [hfl, bindR_ok] at hs; cases hs; exact hc
  | deliverAB k =>
    simp only [HcSys.stepP] at hs
    cases hk : h.wireAB[k]? with
    | none => rw [hk] at hs; cases hs; exact hc
    | some bytes =>
      rw [hk] at hs
      simp only [] at hs
      cases hd : dispatch h.B (bytes.take MAX_FRAME_SIZE) with
      | error t => rw [hd] at hs; cases hs
      | ok b' => rw [hd, bindR_ok] at hs; cases hs; exact hc
  | deliverBA k =>
    simp only [HcSys.stepP] at hs
    cases hk : h.wireBA[k]? with
    | none => rw [hk] at hs; cases hs; exact hc
    | some bytes =>
      rw [hk] at hs
      simp only [] at hs
      cases hd : dispatch h.A (bytes.take MAX_FRAME_SIZE) with
      | error t => rw [hd] at hs; cases hs
      | ok a' =>
        rw [hd, bindR_ok] at hs
        cases hs
        exact cv_dispatch hc _ hd

theorem cv_run (ops : FloatOps F) (sched : List POp) {h h' : HcPair F} (hi : PairInv h) (hc : CV h.em h.A)
    (hr : runP ops h sched = .ok h') : CV h'.em h'.A := by
  induction sched generalizing h with
  | nil => cases hr; exact hc
  | cons op rest ih =>
    rw [runP] at hr
    cases hs : HcSys.stepP ops h op with
    | error t => rw [hs] at hr; cases hr
    | ok h1 =>
      rw [hs, bindR_ok] at hr
      exact ih (pairInv_step ops hi op hs) (cv_step ops hi hc op hs) hr

/-- **With both transmit queues empty every fragment of every Reliable packet of the send window is
acknowledged** — the situation in which `emit_sync_frame` sends `next_packet_id`. -/
theorem cv_idle {em : List Emitted} {s : State F} (h : CV em s) (hr : s.resend.size = 0)
    (hp : s.pending.length = 0) :
    ∀ w ∈ s.ps.win, ∀ x, em[w.packet.uid]? = some x → x.mode = .reliable →
      ∀ f, f ≤ w.packet.lastFragmentId → f ∈ w.packet.acked := by
  intro w hw x hx hrel f hf
  rcases (h.cov w hw x hx hrel).2 f hf with c | ⟨pe, hpe, _⟩ | ⟨r, hr', _⟩
  · exact c
  · have : s.pending = [] := List.eq_nil_of_length_eq_zero hp
    rw [this] at hpe; cases hpe
  · have : s.resend.toList = [] := by
      apply List.eq_nil_of_length_eq_zero
      rw [Array.length_toList]; exact hr
    rw [this] at hr'; cases hr'

end Uflow.HcCov
