import Uflow.Lemmas.HcMemEp

/-!
C06 (endpoints), part 2: a server whose endpoint configuration has `max_receive_alloc = A` cannot
tell a half-connection implementation `hc` from one whose `new` differs only on configurations with
another `rxAllocLimit`: the server creates half connections with `hcConfig s.cfg.ep …` only, and its
configuration never changes.
-/

namespace Uflow.EpMem

open Uflow Uflow.Gen Uflow.Codec Uflow.HalfConn Uflow.Endpoint Uflow.EpNoTrap

variable {H : Type}

/-- `n'` creates the same half connections as `hc.new` for endpoints with `max_receive_alloc = A`. -/
def NewAgrees (hc : HC H) (n' : Config → Nat → H) (A : Nat) : Prop :=
  ∀ (ep : EpConfig) (ln rn rate alloc now : Nat), ep.maxReceiveAlloc = A →
    n' (hcConfig ep ln rn rate alloc) now = hc.new (hcConfig ep ln rn rate alloc) now

theorem foldlM_congr_inv {α β : Type} (P : β → Prop) (f g : β → α → R β)
    (hfg : ∀ b a, P b → f b a = g b a) (hP : ∀ b a b', P b → g b a = .ok b' → P b') (l : List α) :
    ∀ b, P b → l.foldlM f b = l.foldlM g b := by
  induction l with
  | nil => intro b _; rfl
  | cons a l ih =>
    intro b hb
    rw [List.foldlM_cons, List.foldlM_cons, hfg b a hb]
    cases hg : g b a with
    | error t => rfl
    | ok b' => exact ih b' (hP b a b' hb hg)

variable {hc : HC H} {n' : Config → Nat → H} {A : Nat}

/-! ### the server -/

theorem handleHsAck_congr (hn : NewAgrees hc n' A) (s : Server H) (hA : s.cfg.ep.maxReceiveAlloc = A)
    (addr na nowMs nowNs : Nat) :
    s.handleHsAck { hc with new := n' } addr na nowMs nowNs = s.handleHsAck hc addr na nowMs nowNs := by
  unfold Server.handleHsAck
  cases s.find addr with
  | none => rfl
  | some c =>
    simp only []
    cases c.state with
    | pending ln rn rate alloc reply =>
      simp only []
      rw [hn s.cfg.ep ln rn rate alloc nowNs hA]
    | active _ _ _ => rfl
    | closing => rfl
    | closed => rfl
    | fin => rfl

theorem handleFrame_congr (hn : NewAgrees hc n' A) (s : Server H) (hA : s.cfg.ep.maxReceiveAlloc = A)
    (addr : Nat) (f : Frame) (nowMs nowNs : Nat) :
    s.handleFrame { hc with new := n' } addr f nowMs nowNs = s.handleFrame hc addr f nowMs nowNs := by
  cases f with
  | hsAck na =>
    show (Except.ok (s.handleHsAck { hc with new := n' } addr na nowMs nowNs, []) : R _) = _
    rw [handleHsAck_congr hn s hA]; rfl
  | syn v n r p a => rfl
  | synAck _ _ _ _ _ => rfl
  | hsError _ _ => rfl
  | disconnect => rfl
  | disconnectAck => rfl
  | data _ _ _ => rfl
  | sync _ _ => rfl
  | ack _ _ _ => rfl

theorem handleFrame_cfg (hc : HC H) {s : Server H} (hw : s.WF) (addr : Nat) (f : Frame) (nowMs nowNs : Nat)
    {s' : Server H} {sent : List (Nat × List Nat)}
    (hr : s.handleFrame hc addr f nowMs nowNs = .ok (s', sent)) : s'.WF ∧ s'.cfg = s.cfg := by
  obtain ⟨hw', hcase⟩ := Server.handleFrame_wq hc hw addr f nowMs nowNs hr
  refine ⟨hw', ?_⟩
  rcases hcase with hq | ⟨_, _, _, _, _, _, _, _, rfl, _⟩ | ⟨c, _, _, _, _, _, _, _, _, rfl, _⟩
  · exact hq.cfg
  · rfl
  · show (Server.put _ _).cfg = s.cfg
    exact Server.put_cfg _ _

theorem handleFrames_congr (hn : NewAgrees hc n' A) (s : Server H) (hw : s.WF)
    (hA : s.cfg.ep.maxReceiveAlloc = A) (arrivals : List (Nat × List Nat)) (nowMs nowNs : Nat) :
    s.handleFrames { hc with new := n' } arrivals nowMs nowNs = s.handleFrames hc arrivals nowMs nowNs := by
  rw [handleFrames_eq, handleFrames_eq]
  refine foldlM_congr_inv
    (fun acc : Server H × List (Nat × List Nat) => acc.1.WF ∧ acc.1.cfg.ep.maxReceiveAlloc = A)
    _ _ ?_ ?_ arrivals (s, []) ⟨hw, hA⟩
  · intro acc a hacc
    unfold frameStep
    cases decode (a.2.take MAX_FRAME_SIZE) with
    | none => rfl
    | some f =>
      simp only []
      rw [handleFrame_congr hn acc.1 hacc.2]
  · intro acc a acc' hacc hr
    unfold frameStep at hr
    cases hd : decode (a.2.take MAX_FRAME_SIZE) with
    | none =>
      rw [hd] at hr
      simp only [Except.ok.injEq] at hr
      subst hr; exact hacc
    | some f =>
      rw [hd] at hr
      simp only [] at hr
      cases hf : acc.1.handleFrame hc a.1 f nowMs nowNs with
      | error t => rw [hf] at hr; cases hr
      | ok v =>
        obtain ⟨s1, sent1⟩ := v
        rw [hf] at hr
        simp only [Except.ok.injEq] at hr
        subst hr
        obtain ⟨w1, c1⟩ := handleFrame_cfg hc hacc.1 a.1 f nowMs nowNs hf
        exact ⟨w1, by show s1.cfg.ep.maxReceiveAlloc = A; rw [c1]; exact hacc.2⟩

theorem flushActive_congr (hc : HC H) (n' : Config → Nat → H) :
    @Server.flushActive H { hc with new := n' } = @Server.flushActive H hc := rfl

theorem activeTimeouts_congr (hc : HC H) (n' : Config → Nat → H) :
    @Server.activeTimeouts H { hc with new := n' } = @Server.activeTimeouts H hc := rfl

theorem stepActive_congr (hc : HC H) (n' : Config → Nat → H) :
    @Server.stepActive H { hc with new := n' } = @Server.stepActive H hc := rfl

theorem send_congr (hc : HC H) (n' : Config → Nat → H) :
    @Server.send H { hc with new := n' } = @Server.send H hc := rfl

theorem step_congr (hn : NewAgrees hc n' A) (s : Server H) (hw : s.WF)
    (hA : s.cfg.ep.maxReceiveAlloc = A) (nowNs : Nat) (arrivals : List (Nat × List Nat)) :
    s.step { hc with new := n' } nowNs arrivals = s.step hc nowNs arrivals := by
  unfold Server.step
  simp only []
  rw [flushActive_congr, activeTimeouts_congr, stepActive_congr]
  cases hfl : s.flushActive hc with
  | error t => rfl
  | ok v =>
    obtain ⟨s1, sent1⟩ := v
    simp only []
    have hq := Server.flushActive_wq hc hw hfl
    rw [handleFrames_congr hn s1 hq.1 (by rw [hq.2.cfg]; exact hA)]

theorem apply_congr (hn : NewAgrees hc n' A) (s : Server H) (hw : s.WF)
    (hA : s.cfg.ep.maxReceiveAlloc = A) (op : SOp) :
    s.apply { hc with new := n' } op = s.apply hc op := by
  cases op with
  | step nowNs arr => exact step_congr hn s hw hA nowNs arr
  | flush => rfl
  | drop addr => rfl
  | disconnect addr m => rfl
  | send addr data chan mode => rfl

/-- The endpoint configuration of a server never changes. -/
theorem apply_cfg (hc : HC H) {s : Server H} (hw : s.WF) (op : SOp) {s' : Server H}
    {sent : List (Nat × List Nat)} {evs : List SEvent} (hr : s.apply hc op = .ok (s', sent, evs)) :
    s'.cfg = s.cfg := by
  cases op with
  | step nowNs arr =>
    exact (Server.step_inv hc (fun x => x.cfg = s.cfg) (fun a b _ ha hq => hq.cfg.trans ha)
      (fun a _ _ _ _ _ _ ha _ _ => ha) (fun a _ _ _ _ _ _ _ _ _ _ ha _ _ => (Server.put_cfg _ _).trans ha)
      (fun a _ ha => ha) hw rfl nowNs arr hr).2
  | flush =>
    simp only [Server.apply, Server.flush] at hr
    split at hr
    · cases hr
    · rename_i s1 sent1 hfl
      cases hr
      exact (Server.flushActive_wq hc hw hfl).2.cfg
  | drop addr =>
    simp only [Server.apply, Except.ok.injEq, Prod.mk.injEq] at hr
    obtain ⟨rfl, _, _⟩ := hr
    exact (Server.drop_wq hw addr).2.cfg
  | disconnect addr m =>
    simp only [Server.apply, Except.ok.injEq, Prod.mk.injEq] at hr
    obtain ⟨rfl, _, _⟩ := hr
    exact (Server.disconnect_wq hw addr m).2.cfg
  | send addr data chan mode =>
    simp only [Server.apply, Except.ok.injEq, Prod.mk.injEq] at hr
    obtain ⟨rfl, _, _⟩ := hr
    exact (Server.send_wq hc hw addr data chan mode).2.cfg

/-- Runs of a server with `max_receive_alloc = A` under `hc`, given that they do not trap and keep an
invariant under the pinned implementation. -/
theorem runS_congr {Inv : H → Prop} {last : H → Nat} (hn : NewAgrees hc n' A)
    (hok : HCOk ({ hc with new := n' } : HC H) Inv last) (ops : List SOp) :
    ∀ {T : Nat} {s : Server H}, SrvInv Inv last T s → s.cfg.ep.maxReceiveAlloc = A →
      sopsOk T ops = true →
      ∃ s' sent evs, runS hc s ops = .ok (s', sent, evs) ∧ SrvInv Inv last (sopsTime T ops) s' ∧
        s'.cfg = s.cfg := by
  induction ops with
  | nil => intro T s hi _ _; exact ⟨s, [], [], rfl, hi, rfl⟩
  | cons op rest ih =>
    intro T s hi hA hop
    simp only [sopsOk, Bool.and_eq_true] at hop
    obtain ⟨s1, sent1, evs1, h1, i1⟩ := srv_apply_ok hok hi op hop.1
    rw [apply_congr hn s hi.wf hA op] at h1
    have c1 := apply_cfg hc hi.wf op h1
    obtain ⟨s2, sent2, evs2, h2, i2, c2⟩ := ih i1 (by rw [c1]; exact hA) hop.2
    exact ⟨s2, sent1 ++ sent2, evs1 ++ evs2, by simp only [runS, h1, h2], i2, c2.trans c1⟩

end Uflow.EpMem
