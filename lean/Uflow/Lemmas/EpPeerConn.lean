import Uflow.Lemmas.EpPeerRun

/-!
C09, the peer endpoint's part (client model): the ghost trace for runs that start before the handshake
(`pending`, e.g. `Client.connect`): the half connection the trace starts from is the one created at the
SYN-ACK (`hc.new …` with the initial sends applied).
-/

namespace Uflow.Endpoint

open Uflow.Gen Uflow.Codec Uflow.HalfConn

variable {H : Type}

/-- The half connection created at the SYN-ACK: `hc.new cfg now`, then the sends queued while `pending`. -/
def hcStart (hc : HC H) (cfg : Config) (now : Nat) (sends : List (List Nat × Nat × SendMode)) : H :=
  sends.foldl (fun h (e : List Nat × Nat × SendMode) => hc.send h e.1 e.2.1 e.2.2) (hc.new cfg now)

/-- Ghost invariant: `D` are the events delivered so far, `off` the traffic frames offered so far. Either no
half connection exists and no `receive` event was reported, or the connection was established with some
`hcStart …` and the trace relation holds from there (the dispatched frames being among a suffix of `off`). -/
def G (hc : HC H) (x : Client H) (D : List CEvent) (off : List Frame) : Prop :=
  (x.state.hcOf = none ∧ recvOf (D ++ x.eventsOut) = []) ∨
  ∃ cfg now sends ln t cs fr, fr <:+ off ∧
    PTr hc (.active ln (hcStart hc cfg now sends) t none) x.state (D ++ x.eventsOut) cs fr

/-- Ghost transition for the invariant `G`, offering the frames `g`. -/
def GT (hc : HC H) (c c' : Client H) (g : List Frame) : Prop :=
  ∀ D off, G hc c D off → G hc c' D (off ++ g)

theorem GT.trans {hc : HC H} {a b c : Client H} {g1 g2 : List Frame} (x : GT hc a b g1) (y : GT hc b c g2) :
    GT hc a c (g1 ++ g2) := fun D off h => by
  rw [← List.append_assoc]; exact y D _ (x D off h)

theorem GT.refl (hc : HC H) (c : Client H) : GT hc c c [] := fun D off h => by rw [List.append_nil]; exact h

theorem GT.of_CPTr {hc : HC H} {x x' : Client H} {cs : List HCall} {g : List Frame}
    (_hnp : x.state.isPending = false) (h : CPTr hc x x' cs g) : GT hc x x' g := by
  intro D off hg
  obtain ⟨new, e, t⟩ := h
  rcases hg with ⟨h1, h2⟩ | ⟨cfg, now, sends, ln, tt, cs0, fr, hsuf, p⟩
  · obtain ⟨-, q2, q3⟩ := t.off h1
    exact Or.inl ⟨q3, by rw [e, ← List.append_assoc, recvOf_append, h2, q2]; rfl⟩
  · refine Or.inr ⟨cfg, now, sends, ln, tt, cs0 ++ cs, fr ++ g, ?_, ?_⟩
    · obtain ⟨pre, hp⟩ := hsuf
      exact ⟨pre, by rw [← hp, List.append_assoc]⟩
    · rw [e, ← List.append_assoc]; exact p.trans t

theorem GT.dormant {hc : HC H} {x x' : Client H} (g : List Frame) (new : List CEvent)
    (hp : x.state.isPending = true) (h1 : x'.state.hcOf = none) (e : x'.eventsOut = x.eventsOut ++ new)
    (hr : recvOf new = []) : GT hc x x' g := by
  intro D off hg
  rcases hg with ⟨_, h2⟩ | ⟨cfg, now, sends, ln, tt, cs0, fr, hsuf, p⟩
  · exact Or.inl ⟨h1, by rw [e, ← List.append_assoc, recvOf_append, h2, hr]; rfl⟩
  · rw [p.np] at hp; cases hp

theorem Client.handleFrame_GT (hc : HC H) (c c' : Client H) (f : Frame) (nowMs nowNs : Nat)
    (out : List (List Nat)) (h : c.handleFrame hc f nowMs nowNs = .ok (c', out)) :
    GT hc c c' (if isTraffic f then [f] else []) := by
  cases hs : c.state with
  | pending ln req rt rc sends =>
    rw [Client.handleFrame_pending hc c f nowMs nowNs ln req rt rc sends hs] at h
    have hp : c.state.isPending = true := by rw [hs]; rfl
    have keep : GT hc c c (if isTraffic f then [f] else []) :=
      GT.dormant _ [] hp (by rw [hs]; rfl) (by simp) rfl
    cases f with
    | synAck na n r p a =>
      simp only at h
      split at h
      · cases h
        intro D off hg
        rcases hg with ⟨_, h2⟩ | ⟨_, _, _, _, _, _, _, _, p⟩
        · refine Or.inr ⟨hcConfig c.ep ln n r a, nowNs, sends, ln, c.ep.activeTimeoutMs, [], [], List.nil_suffix, ?_⟩
          refine PTr.ofActive hc _ rfl ?_ (List.prefix_refl _) (fun h' e => by cases e; exact ⟨rfl, rfl⟩)
          simp only [replay]
          rw [← List.append_assoc, recvOf_append, h2]; rfl
        · rw [p.np] at hp; cases hp
      · cases h; exact keep
    | hsError na e =>
      simp only at h
      split at h
      · cases h; exact GT.dormant _ [CEvent.error (errOfHs e)] hp rfl rfl rfl
      · cases h; exact keep
    | _ => cases h; exact keep
  | _ =>
    have hnp : c.state.isPending = false := by rw [hs]; rfl
    obtain ⟨cs, t⟩ := Client.handleFrame_CPTr hc c c' f nowMs nowNs out hnp h
    exact GT.of_CPTr hnp t

theorem Client.handleEvents_GT (hc : HC H) (c : Client H) (nowMs : Nat) : GT hc c (c.handleEvents nowMs).1 [] := by
  cases hs : c.state with
  | pending ln req rt rc sends =>
    have hp : c.state.isPending = true := by rw [hs]; rfl
    rw [Client.handleEvents_pending c nowMs ln req rt rc sends hs]
    split
    · split
      · exact GT.dormant _ [] hp rfl (by simp) rfl
      · exact GT.dormant _ [CEvent.error .timeout] hp rfl rfl rfl
    · exact GT.refl hc c
  | _ =>
    have hnp : c.state.isPending = false := by rw [hs]; rfl
    exact GT.of_CPTr hnp (Client.handleEvents_CPTr hc c nowMs hnp)

theorem CState.pending_not_active {s : CState H} (h : s.isPending = true) : ∀ ln hh t sig, s ≠ .active ln hh t sig := by
  intro ln hh t sig e; rw [e] at h; cases h

theorem Client.stepPhase_GT (hc : HC H) (c c' : Client H) (nowMs nowNs : Nat) (out : List (List Nat))
    (h : c.stepPhase hc nowMs nowNs = .ok (c', out)) : GT hc c c' [] := by
  cases hp : c.state.isPending with
  | true =>
    rw [Client.stepPhase_not_active hc c nowMs nowNs (CState.pending_not_active hp)] at h
    cases h; exact GT.refl hc c
  | false =>
    obtain ⟨cs, t⟩ := Client.stepPhase_CPTr hc c c' nowMs nowNs out hp h
    exact GT.of_CPTr hp t

theorem Client.flush_GT (hc : HC H) (c c' : Client H) (out : List (List Nat))
    (h : c.flush hc = .ok (c', out)) : GT hc c c' [] := by
  cases hp : c.state.isPending with
  | true =>
    rw [Client.flush_not_active hc c (CState.pending_not_active hp)] at h
    cases h; exact GT.refl hc c
  | false =>
    obtain ⟨cs, t⟩ := Client.flush_CPTr hc c c' out hp h
    exact GT.of_CPTr hp t

theorem Client.send_GT (hc : HC H) (c : Client H) (d : List Nat) (ch : Nat) (m : SendMode) :
    GT hc c (c.send hc d ch m) [] := by
  cases hs : c.state with
  | pending ln req rt rc sends =>
    exact GT.dormant _ [] (by rw [hs]; rfl) (by simp [Client.send, hs, CState.hcOf]) (by simp [Client.send, hs]) rfl
  | _ =>
    have hnp : c.state.isPending = false := by rw [hs]; rfl
    obtain ⟨cs, t⟩ := Client.send_CPTr hc c d ch m hnp
    exact GT.of_CPTr hnp t

theorem Client.disconnect_GT (hc : HC H) (c : Client H) (m : DisconnectMode) : GT hc c (c.disconnect m) [] := by
  cases hs : c.state with
  | pending ln req rt rc sends =>
    exact GT.dormant _ [] (by rw [hs]; rfl) (by simp [Client.disconnect, hs, CState.hcOf]) (by simp [Client.disconnect, hs]) rfl
  | _ =>
    have hnp : c.state.isPending = false := by rw [hs]; rfl
    exact GT.of_CPTr hnp (Client.disconnect_CPTr hc c m hnp)

theorem Client.frames_GT (hc : HC H) (c c' : Client H) (nowMs nowNs : Nat)
    (arrivals sent : List (List Nat)) (h : c.arrivalsPhase hc nowMs nowNs arrivals = .ok (c', sent)) :
    GT hc c c' (trafficOf arrivals) := by
  refine Client.arrivalsPhase_induct' hc nowMs nowNs
    (fun pre x _ => GT hc c x (trafficOf pre)) ?_ ?_ arrivals c c' sent (GT.refl hc c) h
  · intro pre b x s hp hd
    rw [trafficOf_append, trafficOf_single_none b hd, List.append_nil]
    exact hp
  · intro pre b x s f x' out hp hd hf
    rw [trafficOf_append, trafficOf_single_some b f hd]
    exact hp.trans (Client.handleFrame_GT hc x x' f nowMs nowNs out hf)

theorem Client.apply_G (hc : HC H) (c c' : Client H) (op : COp) (sent : List (List Nat)) (evs : List CEvent)
    (he : c.eventsOut = []) (h : c.apply hc op = .ok (c', sent, evs)) (D : List CEvent) (off : List Frame)
    (hg : G hc c D off) : c'.eventsOut = [] ∧ G hc c' (D ++ evs) (off ++ trafficOfOps [op]) := by
  cases op with
  | step n a =>
    obtain ⟨c1, s1, c2, s2, c4, s4, h1, h2, h4, rfl, -, rfl⟩ := Client.step_phases hc c c' n a sent evs h
    have t := ((Client.flush_GT hc c c1 s1 h1).trans (Client.frames_GT hc c1 c2 _ n a s2 h2)).trans
      ((Client.handleEvents_GT hc c2 (c.nowMs n)).trans (Client.stepPhase_GT hc _ c4 _ n s4 h4))
    have := t D off hg
    refine ⟨rfl, ?_⟩
    simp only [List.nil_append, List.append_nil, trafficOfOps] at this ⊢
    unfold G at this ⊢
    simpa using this
  | send d ch m =>
    cases h
    have e' : (c.send hc d ch m).eventsOut = [] := by unfold Client.send; split <;> exact he
    have := Client.send_GT hc c d ch m D off hg
    simpa [trafficOfOps, e'] using this
  | disconnect m =>
    cases h
    have e' : (c.disconnect m).eventsOut = [] := by unfold Client.disconnect; split <;> exact he
    have := Client.disconnect_GT hc c m D off hg
    simpa [trafficOfOps, e'] using this
  | flush =>
    simp only [Client.apply] at h
    split at h
    · cases h
    · next c1 s1 hfl =>
      cases h
      have e' : c'.eventsOut = [] := by rw [← he]; exact (Client.flush_events hc c c' sent hfl).1
      have := Client.flush_GT hc c c' sent hfl D off hg
      simpa [trafficOfOps, e'] using this

theorem Client.run_G (hc : HC H) (ops : List COp) (c c' : Client H) (sent : List (List Nat)) (evs : List CEvent)
    (he : c.eventsOut = []) (h : Client.run hc c ops = .ok (c', sent, evs)) (D : List CEvent) (off : List Frame)
    (hg : G hc c D off) : c'.eventsOut = [] ∧ G hc c' (D ++ evs) (off ++ trafficOfOps ops) := by
  induction ops generalizing c sent evs D off with
  | nil => cases h; simpa [trafficOfOps] using ⟨he, hg⟩
  | cons op ops ih =>
    simp only [Client.run] at h
    split at h
    · cases h
    · next c1 s1 e1 h1 =>
      split at h
      · cases h
      · next c2 s2 e2 h2 =>
        cases h
        obtain ⟨he1, g1⟩ := Client.apply_G hc c c1 op s1 e1 he h1 D off hg
        obtain ⟨he2, g2⟩ := ih c1 s2 e2 he1 h2 _ _ g1
        have : trafficOfOps (op :: ops) = trafficOfOps [op] ++ trafficOfOps ops := by
          cases op <;> simp [trafficOfOps]
        rw [this, ← List.append_assoc, ← List.append_assoc]
        exact ⟨he2, g2⟩

end Uflow.Endpoint
