import Uflow.Lemmas.EpPeerCli

/-!
C09, the peer endpoint's part (client model), ghost trace of half-connection calls: along any run, the
half connection held by an `active` client is the replay of a list of calls (`send`, `dispatch`, `step`,
`flush`, `receive`) from the half connection it started with; the `receive` events reported are exactly
the outputs of the `receive` calls, in order; the `dispatch` calls are exactly the traffic frames that
arrived, in order.
-/

namespace Uflow.Endpoint

open Uflow.Gen Uflow.Codec Uflow.HalfConn

variable {H : Type}

/-- One call of the endpoint on its half connection. -/
inductive HCall where
  | send (d : List Nat) (ch : Nat) (m : SendMode)
  | dispatch (f : Frame)
  | step (nowNs : Nat)
  | flush (rng : Rng)
  | receive

/-- Executes one call: new half connection and the packets returned (non-empty only for `receive`). -/
def HCall.exec (hc : HC H) (h : H) : HCall → R (H × List (List Nat))
  | .send d ch m => .ok (hc.send h d ch m, [])
  | .dispatch f => match hc.dispatch h f with
    | .error e => .error e
    | .ok h' => .ok (h', [])
  | .step n => match hc.step h n with
    | .error e => .error e
    | .ok h' => .ok (h', [])
  | .flush r => match hc.flush h r with
    | .error e => .error e
    | .ok (h', _, _) => .ok (h', [])
  | .receive => hc.receive h

/-- Replays a list of calls: final half connection and the concatenated outputs of the `receive` calls. -/
def replay (hc : HC H) : H → List HCall → R (H × List (List Nat))
  | h, [] => .ok (h, [])
  | h, c :: cs =>
    match c.exec hc h with
    | .error e => .error e
    | .ok (h1, p1) =>
      match replay hc h1 cs with
      | .error e => .error e
      | .ok (h2, p2) => .ok (h2, p1 ++ p2)

/-- The frames of the `dispatch` calls, in order. -/
def dispatched (cs : List HCall) : List Frame :=
  cs.filterMap fun | .dispatch f => some f | _ => none

/-- The payloads of the `receive` events, in order. -/
def recvOf (evs : List CEvent) : List (List Nat) :=
  evs.filterMap fun | .receive d => some d | _ => none

theorem replay_append (hc : HC H) (cs1 cs2 : List HCall) (h h1 h2 : H) (p1 p2 : List (List Nat))
    (r1 : replay hc h cs1 = .ok (h1, p1)) (r2 : replay hc h1 cs2 = .ok (h2, p2)) :
    replay hc h (cs1 ++ cs2) = .ok (h2, p1 ++ p2) := by
  induction cs1 generalizing h p1 with
  | nil => simp only [replay] at r1; cases r1; simpa using r2
  | cons c cs ih =>
    simp only [replay, List.cons_append] at r1 ⊢
    split at r1
    · cases r1
    · next ha pa hex =>
      split at r1
      · cases r1
      · next hb pb hre =>
        cases r1
        rw [ih ha pb hre]
        simp

theorem dispatched_append (a b : List HCall) : dispatched (a ++ b) = dispatched a ++ dispatched b := by
  unfold dispatched; exact List.filterMap_append ..

theorem recvOf_append (a b : List CEvent) : recvOf (a ++ b) = recvOf a ++ recvOf b := by
  unfold recvOf; exact List.filterMap_append ..

theorem recvOf_map (pkts : List (List Nat)) : recvOf (pkts.map CEvent.receive) = pkts := by
  induction pkts with
  | nil => rfl
  | cons x xs ih => simp only [List.map_cons, recvOf, List.filterMap_cons] at ih ⊢; rw [ih]

theorem recvOf_recv_disc (pkts : List (List Nat)) :
    recvOf (pkts.map CEvent.receive ++ [CEvent.disconnect]) = pkts := by
  rw [recvOf_append, recvOf_map]; simp [recvOf]

theorem replay_receive (hc : HC H) {h h' : H} {pk : List (List Nat)} (hr : hc.receive h = .ok (h', pk)) :
    replay hc h [.receive] = .ok (h', pk) := by
  simp [replay, HCall.exec, hr]

/-- The half connection of an `active` state. -/
def CState.hcOf : CState H → Option H
  | .active _ h _ _ => some h
  | _ => none

def CState.isPending : CState H → Bool
  | .pending .. => true
  | _ => false

/-- Ghost transition: from state `st` to `st'`, having emitted the events `new`, called the half connection
with `cs`, and been offered the traffic frames `fr`. -/
structure PTr (hc : HC H) (st st' : CState H) (new : List CEvent) (cs : List HCall) (fr : List Frame) : Prop where
  np : st'.isPending = false
  act : ∀ h, st.hcOf = some h → ∃ hf, replay hc h cs = .ok (hf, recvOf new) ∧ dispatched cs <+: fr ∧
    ∀ h', st'.hcOf = some h' → h' = hf ∧ dispatched cs = fr
  off : st.hcOf = none → cs = [] ∧ recvOf new = [] ∧ st'.hcOf = none

theorem PTr.refl (hc : HC H) {st : CState H} (hnp : st.isPending = false) : PTr hc st st [] [] [] :=
  ⟨hnp, fun h hh => ⟨h, rfl, List.prefix_refl _, fun h' hh' => ⟨by rw [hh] at hh'; cases hh'; rfl, rfl⟩⟩,
   fun hn => ⟨rfl, rfl, hn⟩⟩

/-- From a state without half connection to another such state, no `receive` event. -/
theorem PTr.idle (hc : HC H) {st st' : CState H} {new : List CEvent} (fr : List Frame) (hnp : st'.isPending = false)
    (h1 : st.hcOf = none) (h2 : st'.hcOf = none) (hr : recvOf new = []) : PTr hc st st' new [] fr :=
  ⟨hnp, fun h hh => (by rw [h1] at hh; cases hh), fun _ => ⟨rfl, hr, h2⟩⟩

theorem PTr.trans {hc : HC H} {st st1 st2 : CState H} {n1 n2 : List CEvent} {cs1 cs2 : List HCall} {fr1 fr2 : List Frame}
    (a : PTr hc st st1 n1 cs1 fr1) (b : PTr hc st1 st2 n2 cs2 fr2) :
    PTr hc st st2 (n1 ++ n2) (cs1 ++ cs2) (fr1 ++ fr2) := by
  refine ⟨b.np, fun h hh => ?_, fun hn => ?_⟩
  · obtain ⟨hf, r1, p1, e1⟩ := a.act h hh
    cases hm : st1.hcOf with
    | some hm1 =>
      obtain ⟨rfl, d1⟩ := e1 hm1 hm
      obtain ⟨hf2, r2, p2, e2⟩ := b.act hm1 hm
      refine ⟨hf2, ?_, ?_, fun h' hh' => ?_⟩
      · rw [recvOf_append]; exact replay_append hc cs1 cs2 h hm1 hf2 _ _ r1 r2
      · rw [dispatched_append, d1]; exact (List.prefix_append_right_inj fr1).mpr p2
      · obtain ⟨e, d2⟩ := e2 h' hh'
        exact ⟨e, by rw [dispatched_append, d1, d2]⟩
    | none =>
      obtain ⟨rfl, q2, q3⟩ := b.off hm
      refine ⟨hf, ?_, ?_, fun h' hh' => ?_⟩
      · rw [recvOf_append, q2, List.append_nil, List.append_nil]; exact r1
      · rw [List.append_nil]; exact p1.trans (List.prefix_append fr1 fr2)
      · rw [q3] at hh'; cases hh'
  · obtain ⟨rfl, q2, q3⟩ := a.off hn
    obtain ⟨rfl, q2', q3'⟩ := b.off q3
    exact ⟨rfl, by rw [recvOf_append, q2, q2']; rfl, q3'⟩

/-- Client-level ghost transition: the event buffer grows by `new`. -/
def CPTr (hc : HC H) (c c' : Client H) (cs : List HCall) (fr : List Frame) : Prop :=
  ∃ new, c'.eventsOut = c.eventsOut ++ new ∧ PTr hc c.state c'.state new cs fr

theorem CPTr.refl (hc : HC H) (c : Client H) (hnp : c.state.isPending = false) : CPTr hc c c [] [] :=
  ⟨[], by simp, PTr.refl hc hnp⟩

theorem CPTr.trans {hc : HC H} {c c1 c2 : Client H} {cs1 cs2 : List HCall} {fr1 fr2 : List Frame}
    (a : CPTr hc c c1 cs1 fr1) (b : CPTr hc c1 c2 cs2 fr2) : CPTr hc c c2 (cs1 ++ cs2) (fr1 ++ fr2) := by
  obtain ⟨n1, e1, t1⟩ := a
  obtain ⟨n2, e2, t2⟩ := b
  exact ⟨n1 ++ n2, by rw [e2, e1, List.append_assoc], t1.trans t2⟩

theorem CPTr.np {hc : HC H} {c c' : Client H} {cs : List HCall} {fr : List Frame} (a : CPTr hc c c' cs fr) :
    c'.state.isPending = false := by
  obtain ⟨_, _, t⟩ := a; exact t.np

/-- An `active` → anything transition, given explicitly. -/
theorem PTr.ofActive (hc : HC H) {ln : Nat} {h : H} {t : Nat} {sig : Option DisconnectMode} {st' : CState H}
    {new : List CEvent} {cs : List HCall} {fr : List Frame} (hf : H) (hnp : st'.isPending = false)
    (hr : replay hc h cs = .ok (hf, recvOf new)) (hp : dispatched cs <+: fr)
    (he : ∀ h', st'.hcOf = some h' → h' = hf ∧ dispatched cs = fr) :
    PTr hc (.active ln h t sig) st' new cs fr :=
  ⟨hnp, fun h0 hh => by cases hh; exact ⟨hf, hr, hp, he⟩, fun hn => by cases hn⟩

/-! ## The transitions of the client -/

theorem Client.handleFrame_CPTr (hc : HC H) (c c' : Client H) (f : Frame) (nowMs nowNs : Nat)
    (out : List (List Nat)) (hnp : c.state.isPending = false)
    (h : c.handleFrame hc f nowMs nowNs = .ok (c', out)) :
    ∃ cs, CPTr hc c c' cs (if isTraffic f then [f] else []) := by
  cases hs : c.state with
  | pending ln req rt rc sends => rw [hs] at hnp; cases hnp
  | fin =>
    rw [Client.handleFrame_fin hc c f nowMs nowNs hs] at h
    cases h
    exact ⟨[], [], by simp, PTr.idle hc _ (by rw [hs]; rfl) (by rw [hs]; rfl) (by rw [hs]; rfl) rfl⟩
  | closed t =>
    rw [Client.handleFrame_closed hc c f nowMs nowNs t hs] at h
    cases h
    exact ⟨[], [], by simp, PTr.idle hc _ (by rw [hs]; rfl) (by rw [hs]; rfl) (by rw [hs]; rfl) rfl⟩
  | closing req rt rc =>
    rw [Client.handleFrame_closing hc c f nowMs nowNs req rt rc hs] at h
    cases f <;> cases h
    all_goals first
      | exact ⟨[], [], by simp, PTr.idle hc _ (by rw [hs]; rfl) (by rw [hs]; rfl) (by rw [hs]; rfl) rfl⟩
      | exact ⟨[], [CEvent.disconnect], rfl, PTr.idle hc _ rfl (by rw [hs]; rfl) rfl rfl⟩
  | active ln hh t sig =>
    rw [Client.handleFrame_active hc c f nowMs nowNs ln hh t sig hs] at h
    have same : ∀ fr : List Frame, fr = [] → (Except.ok (c, []) : R (Client H × List (List Nat))) = .ok (c', out) →
        ∃ cs, CPTr hc c c' cs fr := by
      intro fr hfr e; cases e; subst hfr
      exact ⟨[], CPTr.refl hc c (by rw [hs]; rfl)⟩
    have traffic : ∀ f', isTraffic f' = true → ((match hc.dispatch hh f' with
        | .error e => .error e
        | .ok h'' => .ok ({ c with state := .active ln h'' (nowMs + c.ep.activeTimeoutMs) sig }, [])) : R (Client H × List (List Nat)))
          = .ok (c', out) → ∃ cs, CPTr hc c c' cs (if isTraffic f' then [f'] else []) := by
      intro f' hf' h
      split at h
      · cases h
      · next h'' hdp =>
        cases h
        refine ⟨[.dispatch f'], [], by simp, ?_⟩
        rw [hs, if_pos hf']
        refine PTr.ofActive hc h'' rfl ?_ (List.prefix_refl _) (fun h' e => by cases e; exact ⟨rfl, rfl⟩)
        simp only [replay, HCall.exec, hdp]; rfl
    cases f with
    | disconnect =>
      simp only at h
      split at h
      · cases h
      · next h' pk hr =>
        cases h
        refine ⟨[.receive], pk.map CEvent.receive ++ [CEvent.disconnect], by simp, ?_⟩
        rw [hs]
        refine PTr.ofActive hc h' rfl ?_ (List.prefix_refl _) (fun h' e => by cases e)
        rw [recvOf_recv_disc]; exact replay_receive hc hr
    | data sid nn dgs => exact traffic _ rfl h
    | sync a b => exact traffic _ rfl h
    | ack a b c => exact traffic _ rfl h
    | synAck na n r p a =>
      simp only at h
      cases h
      exact ⟨[], CPTr.refl hc c (by rw [hs]; rfl)⟩
    | syn => exact same _ rfl h
    | hsAck => exact same _ rfl h
    | hsError => exact same _ rfl h
    | disconnectAck => exact same _ rfl h

theorem Client.handleEvents_CPTr (hc : HC H) (c : Client H) (nowMs : Nat) (hnp : c.state.isPending = false) :
    CPTr hc c (c.handleEvents nowMs).1 [] [] := by
  cases hs : c.state with
  | pending ln req rt rc sends => rw [hs] at hnp; cases hnp
  | fin => rw [Client.handleEvents_fin c nowMs hs]; exact CPTr.refl hc c hnp
  | closed t =>
    rw [Client.handleEvents_closed c nowMs t hs]
    refine ⟨[], ?_, ?_⟩
    · simp only; split <;> simp
    · simp only
      refine PTr.idle hc _ ?_ (by rw [hs]; rfl) ?_ rfl <;> (split <;> first | rfl | (rw [hs]; rfl))
  | closing req rt rc =>
    rw [Client.handleEvents_closing c nowMs req rt rc hs]
    split
    · split
      · exact ⟨[], by simp, PTr.idle hc _ rfl (by rw [hs]; rfl) rfl rfl⟩
      · exact ⟨[CEvent.error .timeout], rfl, PTr.idle hc _ rfl (by rw [hs]; rfl) rfl rfl⟩
    · exact CPTr.refl hc c hnp
  | active ln hh t sig =>
    rw [Client.handleEvents_active c nowMs ln hh t sig hs]
    split
    · refine ⟨[CEvent.error .timeout], rfl, ?_⟩
      rw [hs]
      exact PTr.ofActive hc hh rfl rfl (List.prefix_refl _) (fun h' e => by cases e)
    · exact CPTr.refl hc c hnp

theorem Client.stepPhase_CPTr (hc : HC H) (c c' : Client H) (nowMs nowNs : Nat) (out : List (List Nat))
    (hnp : c.state.isPending = false) (h : c.stepPhase hc nowMs nowNs = .ok (c', out)) :
    ∃ cs, CPTr hc c c' cs [] := by
  rcases CState.active_or_not c.state with ⟨ln, hh, t, sig, hs⟩ | hna
  · rw [Client.stepPhase_active hc c nowMs nowNs ln hh t sig hs] at h
    split at h
    · split at h
      · cases h
      · next h' pk hr =>
        cases h
        refine ⟨[.receive], pk.map CEvent.receive, rfl, ?_⟩
        rw [hs]
        refine PTr.ofActive hc h' rfl ?_ (List.prefix_refl _) (fun h' e => by cases e)
        rw [recvOf_map]; exact replay_receive hc hr
    · split at h
      · cases h
      · next h1 hst =>
        split at h
        · cases h
        · next h2 pk hr =>
          cases h
          refine ⟨[.step nowNs, .receive], pk.map CEvent.receive, rfl, ?_⟩
          rw [hs]
          refine PTr.ofActive hc h2 rfl ?_ (List.prefix_refl _) (fun h' e => by cases e; exact ⟨rfl, rfl⟩)
          simp [replay, HCall.exec, hst, hr, recvOf_map]
  · rw [Client.stepPhase_not_active hc c nowMs nowNs hna] at h
    cases h
    exact ⟨[], CPTr.refl hc c hnp⟩

theorem Client.flush_CPTr (hc : HC H) (c c' : Client H) (out : List (List Nat))
    (hnp : c.state.isPending = false) (h : c.flush hc = .ok (c', out)) :
    ∃ cs, CPTr hc c c' cs [] := by
  rcases CState.active_or_not c.state with ⟨ln, hh, t, sig, hs⟩ | hna
  · rw [Client.flush_active hc c ln hh t sig hs] at h
    split at h
    · cases h
    · next h1 rng1 fr hfl =>
      cases h
      refine ⟨[.flush c.rng], [], by simp, ?_⟩
      rw [hs]
      refine PTr.ofActive hc h1 rfl ?_ (List.prefix_refl _) (fun h' e => by cases e; exact ⟨rfl, rfl⟩)
      simp only [replay, HCall.exec, hfl]; rfl
  · rw [Client.flush_not_active hc c hna] at h
    cases h
    exact ⟨[], CPTr.refl hc c hnp⟩

theorem Client.send_CPTr (hc : HC H) (c : Client H) (d : List Nat) (ch : Nat) (m : SendMode)
    (hnp : c.state.isPending = false) : ∃ cs, CPTr hc c (c.send hc d ch m) cs [] := by
  cases hs : c.state with
  | pending ln req rt rc sends => rw [hs] at hnp; cases hnp
  | active ln hh t sig =>
    refine ⟨[.send d ch m], [], by simp [Client.send, hs], ?_⟩
    simp only [Client.send, hs]
    exact PTr.ofActive hc _ rfl rfl (List.prefix_refl _) (fun h' e => by cases e; exact ⟨rfl, rfl⟩)
  | _ =>
    have : c.send hc d ch m = c := by simp [Client.send, hs]
    rw [this]; exact ⟨[], CPTr.refl hc c hnp⟩

theorem Client.disconnect_CPTr (hc : HC H) (c : Client H) (m : DisconnectMode)
    (hnp : c.state.isPending = false) : CPTr hc c (c.disconnect m) [] [] := by
  cases hs : c.state with
  | pending ln req rt rc sends => rw [hs] at hnp; cases hnp
  | active ln hh t sig =>
    refine ⟨[], by simp [Client.disconnect, hs], ?_⟩
    simp only [Client.disconnect, hs]
    exact PTr.ofActive hc hh rfl rfl (List.prefix_refl _) (fun h' e => by cases e; exact ⟨rfl, rfl⟩)
  | _ =>
    have : c.disconnect m = c := by simp [Client.disconnect, hs]
    rw [this]; exact CPTr.refl hc c hnp

end Uflow.Endpoint
