import Uflow.Lemmas.SysLiveInv

/-!
Liveness of the composed system (C02Live), part 3: `receive` keeps the receiver liveness invariant
`RL` (with an honest sender: the window parent leads are exact) and the log / entry-flag link `LG`.
-/

namespace Uflow.Sys

open Uflow Uflow.Gen Uflow.Codec Uflow.PSend Uflow.PRecv Uflow.Frag

/-! ### honest window parent leads, as the receiver sees them -/

/-- What the `window_parent_lead` stored with a received entry `x` of the window says, for the honest
sender of the system: every Reliable packet emitted between the window base and `x` is at or before
the named window parent, and a named parent is a Reliable emitted packet. -/
theorem wpl_honest {b0 w W M : Nat} (hw : w ≤ 2^16) {s : Sys} (h : SInv b0 w W M s) (x : Nat) (hx : x < 2^20)
    (hxo : pidSub x s.rcv.st.baseId < W) (hen : (lget s.rcv.st.slots (wi W x)).entryFlag = true) :
    (∀ j y, s.hist.emitted[j]? = some y → y.mode = .reliable → s.rcv.adv ≤ j →
        j < s.rcv.adv + pidSub x s.rcv.st.baseId →
        (lget s.rcv.st.slots (wi W x)).wpl ≠ 0 ∧
        j + (lget s.rcv.st.slots (wi W x)).wpl ≤ s.rcv.adv + pidSub x s.rcv.st.baseId) ∧
    ((lget s.rcv.st.slots (wi W x)).wpl ≠ 0 →
        (lget s.rcv.st.slots (wi W x)).wpl ≤ s.rcv.adv + pidSub x s.rcv.st.baseId ∧
        ∃ z, s.hist.emitted[s.rcv.adv + pidSub x s.rcv.st.baseId -
            (lget s.rcv.st.slots (wi W x)).wpl]? = some z ∧ z.mode = .reliable) := by
  obtain ⟨pv, hpv, hwpl⟩ := (h.cinv x hx hxo).entry hen
  generalize hiv : s.rcv.adv + pidSub x s.rcv.st.baseId = iv at *
  obtain ⟨-, ev, hev, -, -, -, ewpl, -, -⟩ := h.snd.plink iv pv hpv
  obtain ⟨l1, -, l3, l4, -⟩ := h.snd.hinv.leads iv ev hev
  have hb := h.snd.ebase ev (List.mem_of_getElem? hev)
  have huid : ev.uid = iv := (h.snd.hinv.ids iv ev hev).1
  have hlo := h.lo
  rw [hwpl, ← ewpl]
  generalize pidSub ev.sequenceId ev.baseAt = out at *
  obtain ⟨a1, a2, a3, a4⟩ := l1.exact (by omega)
  constructor
  · intro j y hy hrel h1 h2
    have hne : ev.windowParentLead ≠ 0 := by
      intro h0
      exact (a3.mp h0) j y hy h2 (by omega) hrel
    obtain ⟨z, -, -, hnone⟩ := a4 hne
    refine ⟨hne, ?_⟩
    rcases Nat.lt_or_ge (iv - ev.windowParentLead) j with hlt | hge
    · exact absurd hrel (hnone j y hy hlt h2)
    · omega
  · intro hne
    obtain ⟨z, hz, hP, -⟩ := a4 hne
    exact ⟨a2, z, hz, hP⟩

/-! ### `receive` in two halves, keeping the value of the window pass -/

theorem receiveT_split {W M : Nat} (hW : WOk W) {b0 adv : Nat} {log : List LogE} {s s' : PRecv.State}
    {evs : List Ev} (hinv : Inv W M s) (h : Ord W s) (g : GI W b0 adv log s)
    (hr : receiveT s = .ok (s', evs)) :
    ∃ s1, Inv W M s1 ∧ Ord W s1 ∧ GI W b0 adv (log ++ evs.map (lift adv s.baseId)) s1 ∧ Shrunk s s1 ∧
      s1.windowReady = s.windowReady ∧
      (∀ ev ∈ evs, ev.seq < 2^20 ∧ pidSub ev.seq s.baseId < pidSub s.endId s.baseId ∧
        (lget s.slots (wi W ev.seq)).dataFlag = true) ∧
      ((s1.windowReady = false ∧ s' = s1) ∨
       (s1.windowReady = true ∧ ∃ nb,
          windowLoop loopFuel { s1 with windowReady := false } s.baseId s.endId s.baseId = .ok nb ∧
          nb < 2^20 ∧ pidSub nb s.baseId ≤ W ∧
          advanceWindow { s1 with windowReady := false } nb = .ok s')) := by
  have hvis : Visited W s s.baseId := by
    intro x _ hxo _
    rw [pidSub_self] at hxo
    exact absurd hxo (Nat.not_lt_zero _)
  obtain ⟨s1, new, hdl, hinv1, hord1, hgi1, hb1, he1, -⟩ := deliverLoopT_ord (M := M) hW b0 adv s.baseId s.endId
    hinv.elt loopFuel s s.baseId [] log hinv h g rfl rfl hinv.blt (by rw [pidSub_self]; exact Nat.zero_le _)
    hvis (loopFuel_gt _ _)
  obtain ⟨hsh, new2, hnew2, hev⟩ := deliverLoopT_content hW s.baseId s.endId hinv.blt hinv.elt h.ewin
    loopFuel s s.baseId [] s1 ([] ++ new) hinv.wsz hinv.blt (by rw [pidSub_self]; exact Nat.zero_le _) hdl
  have hwr := deliverLoopT_wready s.baseId s.endId loopFuel s s.baseId [] s1 ([] ++ new) hdl
  simp only [List.nil_append] at hnew2 hgi1
  subst hnew2
  have hcontent : ∀ ev ∈ new, ev.seq < 2^20 ∧ pidSub ev.seq s.baseId < pidSub s.endId s.baseId ∧
      (lget s.slots (wi W ev.seq)).dataFlag = true := by
    intro ev hm
    obtain ⟨e1, -, e3, e4, -⟩ := hev ev hm
    exact ⟨e1, e3, e4⟩
  rw [receiveT, hdl, bindR_ok] at hr
  simp only [List.nil_append] at hr
  unfold recvTailS at hr
  by_cases hw : s1.windowReady = true
  · rw [if_pos hw] at hr
    cases hwl : windowLoop loopFuel { s1 with windowReady := false } s.baseId s.endId s.baseId with
    | error t => rw [hwl] at hr; cases hr
    | ok nb =>
      rw [hwl, bindR_ok] at hr
      cases hadvw : advanceWindow { s1 with windowReady := false } nb with
      | error t => rw [hadvw] at hr; cases hr
      | ok s2 =>
        rw [hadvw, bindR_ok] at hr
        cases hr
        obtain ⟨hnb, hnle⟩ := windowLoop_le _ s.baseId s.endId hinv.blt hinv.elt loopFuel s.baseId s.baseId nb
          hinv.blt hinv.blt (by rw [pidSub_self]; exact Nat.zero_le _) (Nat.le_refl _) hwl
        have hew := h.ewin
        exact ⟨s1, hinv1, hord1, hgi1, hsh, hwr, hcontent, Or.inr ⟨hw, nb, hwl, hnb, by omega, hadvw⟩⟩
  · rw [if_neg hw, bindR_ok] at hr
    cases hr
    exact ⟨s', hinv1, hord1, hgi1, hsh, hwr, hcontent, Or.inl ⟨by simpa using hw, rfl⟩⟩

/-- The delivery pass keeps the receiver liveness invariant. -/
theorem RL.of_shrunk {W : Nat} {s t : PRecv.State} (hl : RL W s) (hsh : Shrunk s t)
    (hwr : t.windowReady = s.windowReady) : RL W t := by
  refine ⟨?_, ?_, ?_⟩
  · intro k a hcl
    rw [hsh.asm] at hcl
    rw [hsh.entry]
    exact hl.ce k a hcl
  · intro x hx hxo hen
    rw [hsh.base] at hxo ⊢
    rw [hsh.endId]
    rw [hsh.entry] at hen
    exact hl.ef x hx hxo hen
  · intro x hx hxo hen ht
    rw [hsh.base] at hxo ht
    rw [hsh.entry] at hen
    rw [hsh.wpl] at ht
    rw [hwr]
    exact hl.wr x hx hxo hen ht

/-- After a window advance: a slot of the new window with its entry flag is a slot of the old window
that was not passed. -/
theorem adv_entry_inwin {W M : Nat} (hW : WOk W) {s s' : PRecv.State} (hinv : Inv W M s) (nb : Nat)
    (hnb : nb < 2^20) (hδ : pidSub nb s.baseId ≤ W)
    (hA : ∀ k, (∀ id, id < 2^20 → pidSub id s.baseId < pidSub nb s.baseId → wi W id ≠ k) →
        core (lget s'.slots k) = core (lget s.slots k))
    (hB : ∀ id, id < 2^20 → pidSub id s.baseId < pidSub nb s.baseId →
        (lget s'.slots (wi W id)).entryFlag = false ∧ (lget s'.slots (wi W id)).dataFlag = false ∧
        (lget s'.slots (wi W id)).asm = .opened)
    (x : Nat) (hx : x < 2^20) (hxo : pidSub x nb < W)
    (hen : (lget s'.slots (wi W x)).entryFlag = true) :
    pidSub x s.baseId = pidSub x nb + pidSub nb s.baseId ∧ pidSub x s.baseId < W ∧
    core (lget s'.slots (wi W x)) = core (lget s.slots (wi W x)) := by
  have hle := hW.le
  have hblt := hinv.blt
  have hun := off_unshift x s.baseId nb hblt hnb (by omega)
  rcases Nat.lt_or_ge (pidSub x s.baseId) W with hlt | hge
  · refine ⟨hun, hlt, hA _ ?_⟩
    intro id hid hido hwi
    have := off_eq_of_wi hW id x s.baseId hblt (by omega) (by omega) hwi
    omega
  · exfalso
    have hidlt : pidSub x W < 2^20 := pidSub_lt _ _
    have hido : pidSub (pidSub x W) s.baseId + W = pidSub x s.baseId := by
      have h1 := pidSub_cases x s.baseId hx hblt
      have h2 := pidSub_cases (pidSub x W) s.baseId hidlt hblt
      have h3 := pidSub_cases x W hx (by omega)
      omega
    have hwi := wi_eq_of_off_add hW x _ s.baseId hblt hido.symm
    obtain ⟨b1, -, -⟩ := hB (pidSub x W) hidlt (by omega)
    rw [hwi, b1] at hen
    cases hen

theorem core_wpl {a b : Slot} (h : core a = core b) : a.wpl = b.wpl :=
  (congrArg Slot.wpl h : (core a).wpl = (core b).wpl)

/-- `receive` keeps the receiver liveness invariant, provided the window parent leads of the received
entries are exact with respect to the set `Rel` of Reliable positions (`wpl_honest`). -/
theorem receiveT_live {W M : Nat} (hW : WOk W) {b0 adv : Nat} {log : List LogE} {s s' : PRecv.State}
    {evs : List Ev} (hinv : Inv W M s) (hord : Ord W s) (g : GI W b0 adv log s) (hl : RL W s)
    (Rel : Nat → Prop)
    (hon : ∀ x, x < 2^20 → pidSub x s.baseId < W → (lget s.slots (wi W x)).entryFlag = true →
      (∀ j, Rel j → adv ≤ j → j < adv + pidSub x s.baseId →
        (lget s.slots (wi W x)).wpl ≠ 0 ∧ j + (lget s.slots (wi W x)).wpl ≤ adv + pidSub x s.baseId) ∧
      ((lget s.slots (wi W x)).wpl ≠ 0 → (lget s.slots (wi W x)).wpl ≤ adv + pidSub x s.baseId ∧
        Rel (adv + pidSub x s.baseId - (lget s.slots (wi W x)).wpl)))
    (hr : receiveT s = .ok (s', evs)) : RL W s' := by
  obtain ⟨s1, hinv1, hord1, -, hsh, hwr1, -, hcase⟩ := receiveT_split hW hinv hord g hr
  have hl1 : RL W s1 := hl.of_shrunk hsh hwr1
  rcases hcase with ⟨-, rfl⟩ | ⟨-, nb, hwl, hnb, hδ, hadv⟩
  · exact hl1
  have hinv1' := hinv1.setWindowReady false
  have hord1' : Ord W { s1 with windowReady := false } := hord1.congr rfl rfl rfl rfl
  have hδ' : pidSub nb ({ s1 with windowReady := false } : PRecv.State).baseId ≤ W := by
    show pidSub nb s1.baseId ≤ W; rw [hsh.base]; exact hδ
  have F := advanceWindow_facts hW hinv1' hord1' nb hnb hδ' hadv
  obtain ⟨hA, hB⟩ := advanceWindow_core hW hinv1' hord1' nb hnb hδ' hadv
  have hA1 : ∀ k, (∀ id, id < 2^20 → pidSub id s1.baseId < pidSub nb s1.baseId → wi W id ≠ k) →
      core (lget s'.slots k) = core (lget s1.slots k) := hA
  have hB1 : ∀ id, id < 2^20 → pidSub id s1.baseId < pidSub nb s1.baseId →
      (lget s'.slots (wi W id)).entryFlag = false ∧ (lget s'.slots (wi W id)).dataFlag = false ∧
      (lget s'.slots (wi W id)).asm = .opened := hB
  have hδ1 : pidSub nb s1.baseId ≤ W := hδ'
  have hbe : s'.baseId = nb := F.base
  have hend : s'.endId = if pidSub s1.endId s1.baseId < pidSub nb s1.baseId then nb else s1.endId := F.endId
  obtain ⟨-, -, r3, hstop⟩ := windowLoop_stop _ hinv1' s.baseId s.endId hinv.blt hinv.elt loopFuel
    s.baseId s.baseId nb hinv.blt hinv.blt (by rw [pidSub_self]; exact Nat.zero_le _) (Nat.le_refl _)
    (by intro x _ h1 h2; omega) hwl
  have hstop1 : (∀ x, x < 2^20 → pidSub nb s.baseId ≤ pidSub x s.baseId →
        pidSub x s.baseId < pidSub s.endId s.baseId → (lget s1.slots (wi W x)).entryFlag = false) ∨
      (∃ y, y < 2^20 ∧ pidSub nb s.baseId ≤ pidSub y s.baseId ∧ pidSub y s.baseId < pidSub s.endId s.baseId ∧
        (lget s1.slots (wi W y)).entryFlag = true ∧ (lget s1.slots (wi W y)).wpl ≠ 0 ∧
        (lget s1.slots (wi W y)).wpl + pidSub nb s.baseId ≤ pidSub y s.baseId ∧
        ∀ x, x < 2^20 → pidSub nb s.baseId ≤ pidSub x s.baseId → pidSub x s.baseId < pidSub y s.baseId →
          (lget s1.slots (wi W x)).entryFlag = false) := hstop
  clear hstop
  have hb1 : s1.baseId = s.baseId := hsh.base
  have he1 : s1.endId = s.endId := hsh.endId
  rw [hb1] at hA1 hB1 hδ1
  rw [hb1, he1] at hend
  -- an entry of the new window, in terms of the old one
  have inwin : ∀ x, x < 2^20 → pidSub x nb < W → (lget s'.slots (wi W x)).entryFlag = true →
      pidSub x s.baseId = pidSub x nb + pidSub nb s.baseId ∧ pidSub x s.baseId < W ∧
      (lget s.slots (wi W x)).entryFlag = true ∧
      (lget s'.slots (wi W x)).wpl = (lget s.slots (wi W x)).wpl ∧
      pidSub x s.baseId < pidSub s.endId s.baseId := by
    intro x hx hxo hen
    have hinv1b : Inv W M s1 := hinv1
    obtain ⟨i1, i2, i3⟩ := adv_entry_inwin hW hinv1 nb hnb (by rw [hb1]; exact hδ1)
      (by rw [hb1]; exact hA1) (by rw [hb1]; exact hB1) x hx hxo hen
    rw [hb1] at i1 i2
    have e1 := (core_fields i3).1
    have e2 := core_wpl i3
    rw [hsh.entry] at e1
    rw [hsh.wpl] at e2
    rw [e1] at hen
    exact ⟨i1, i2, hen, e2, hl.ef x hx i2 hen⟩
  refine ⟨?_, ?_, ?_⟩
  · intro k a hcl
    by_cases hpass : ∃ id, id < 2^20 ∧ pidSub id s.baseId < pidSub nb s.baseId ∧ wi W id = k
    · obtain ⟨id, hid, hido, rfl⟩ := hpass
      rw [(hB1 id hid hido).2.2] at hcl
      cases hcl
    · have hcore := hA1 k (fun id hid hido hwi => hpass ⟨id, hid, hido, hwi⟩)
      obtain ⟨e1, -, -, -, e5, -⟩ := core_fields hcore
      rw [e5] at hcl
      rw [e1]
      exact hl1.ce k a hcl
  · intro x hx hxo hen
    rw [hbe] at hxo ⊢
    obtain ⟨i1, i2, -, -, i5⟩ := inwin x hx hxo hen
    rw [hend, if_neg (by omega)]
    rw [off_shift s.endId s.baseId nb hinv.blt hnb (by omega)]
    omega
  · intro x hx hxo hen ht
    exfalso
    rw [hbe] at hxo ht
    obtain ⟨i1, i2, i3, i4, i5⟩ := inwin x hx hxo hen
    rw [i4] at ht
    rcases hstop1 with hnone | ⟨y, hy, y1, y2, y3, y4, y5, y6⟩
    · have := hnone x hx (by omega) i5
      rw [hsh.entry, i3] at this
      cases this
    · rw [hsh.entry] at y3
      rw [hsh.wpl] at y4 y5
      rcases Nat.lt_trichotomy (pidSub x s.baseId) (pidSub y s.baseId) with hlt | heq | hgt
      · have := y6 x hx (by omega) hlt
        rw [hsh.entry, i3] at this
        cases this
      · have hxy : x = y := id_eq_of_off x y s.baseId hx hy heq
        subst hxy
        omega
      · obtain ⟨-, hy2⟩ := hon y hy (by have := hord.ewin; omega) y3
        obtain ⟨hy2a, hy2b⟩ := hy2 y4
        obtain ⟨hx1, -⟩ := hon x hx i2 i3
        obtain ⟨n1, n2⟩ := hx1 _ hy2b (by omega) (by omega)
        omega

/-! ### the log and the entry flags -/

/-- Every packet of the current window that is in the log still has its entry flag. -/
def LG (W : Nat) (g : G) : Prop :=
  ∀ e ∈ g.log, g.adv ≤ e.uid → (lget g.st.slots (wi W e.seq)).entryFlag = true

theorem seq_off (b0 adv u : Nat) (h1 : adv ≤ u) (h2 : u - adv < 2^20) :
    pidSub ((b0 + u) % 2^20) ((b0 + adv) % 2^20) = u - adv := by
  simp only [pidSub, PACKET_ID_SPAN]
  omega

theorem receiveT_lg {W M : Nat} (hW : WOk W) {b0 adv : Nat} {log : List LogE} {s s' : PRecv.State}
    {evs : List Ev} (hinv : Inv W M s) (hord : Ord W s) (g : GI W b0 adv log s) (hl : RL W s)
    (hlg : ∀ e ∈ log, adv ≤ e.uid → (lget s.slots (wi W e.seq)).entryFlag = true)
    (hr : receiveT s = .ok (s', evs)) :
    ∀ e ∈ log ++ evs.map (lift adv s.baseId), adv + pidSub s'.baseId s.baseId ≤ e.uid →
      (lget s'.slots (wi W e.seq)).entryFlag = true := by
  obtain ⟨s1, hinv1, hord1, hgi1, hsh, hwr1, hcont, hcase⟩ := receiveT_split hW hinv hord g hr
  -- in `s1`
  have h1 : ∀ e ∈ log ++ evs.map (lift adv s.baseId), adv ≤ e.uid →
      (lget s1.slots (wi W e.seq)).entryFlag = true := by
    intro e he hu
    rw [hsh.entry]
    rcases List.mem_append.mp he with he | he
    · exact hlg e he hu
    · obtain ⟨ev, hev, rfl⟩ := List.mem_map.mp he
      obtain ⟨-, -, hf⟩ := hcont ev hev
      obtain ⟨-, a, ha, -⟩ := (hinv.sok (wi W ev.seq)).flagged hf
      exact hl.ce _ a ha
  rcases hcase with ⟨-, rfl⟩ | ⟨-, nb, -, hnb, hδ, hadv⟩
  · intro e he hu
    exact h1 e he (by omega)
  have hinv1' := hinv1.setWindowReady false
  have hord1' : Ord W { s1 with windowReady := false } := hord1.congr rfl rfl rfl rfl
  have hδ' : pidSub nb ({ s1 with windowReady := false } : PRecv.State).baseId ≤ W := by
    show pidSub nb s1.baseId ≤ W; rw [hsh.base]; exact hδ
  have F := advanceWindow_facts hW hinv1' hord1' nb hnb hδ' hadv
  obtain ⟨hA, -⟩ := advanceWindow_core hW hinv1' hord1' nb hnb hδ' hadv
  have hA1 : ∀ k, (∀ id, id < 2^20 → pidSub id s1.baseId < pidSub nb s1.baseId → wi W id ≠ k) →
      core (lget s'.slots k) = core (lget s1.slots k) := hA
  have hbe : s'.baseId = nb := F.base
  rw [hsh.base] at hA1
  intro e he hu
  rw [hbe] at hu
  have hin := h1 e he (by omega)
  have hseq := hgi1.gseq e he
  obtain ⟨w1, w2, w3⟩ := hgi1.gwin e he
  have hoff : pidSub e.seq s.baseId = e.uid - adv := by
    rw [hseq, g.gbase]
    exact seq_off b0 adv e.uid (by omega) (by have := hW.le; omega)
  have hcore := hA1 (wi W e.seq) (by
    intro id hid hido hwi
    have := off_eq_of_wi hW id e.seq s.baseId hinv.blt (by omega) (by omega) hwi
    omega)
  rw [(core_fields hcore).1]
  exact hin

end Uflow.Sys
