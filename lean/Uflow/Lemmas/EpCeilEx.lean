import Uflow.Lemmas.EpCeilRun
import Uflow.Lemmas.EpNoTrapEx

/-!
C13 (endpoints): a concrete server (`max_send_rate = 1000000`) to which two clients connect whose SYNs
advertise `max_receive_rate = 500000` and `2000000`; a concrete client (`max_send_rate = 1000000`)
whose server advertises `300000`. Handshake fed as decoded frames (decoding a SYN in the kernel is
slow); `exSrvC_from_bytes` connects the state to the encoded datagrams with the codec round-trip
theorem.
-/

namespace Uflow.EpCeil.Ex

open Uflow Uflow.Gen Uflow.Codec Uflow.HalfConn Uflow.Endpoint Uflow.EpNoTrap Uflow.EpNoTrap.Ex Uflow.CreditEx

def synR (n r : Nat) : Frame := .syn PROTOCOL_VERSION n r 1000 100000

/-- Clients 7 (nonce 5, advertises 500000 B/s) and 8 (nonce 6, advertises 2000000 B/s) complete the
handshake with the server of `EpNoTrapEx` (`max_send_rate = 1000000`, nonces 77 and 88). -/
def exSrvC : Server HN :=
  feed (feed (feed (feed exSrv0 7 (synR 5 500000)) 8 (synR 6 2000000)) 7 (.hsAck 77)) 8 (.hsAck 88)

def exHandshakeC : List (Nat × List Nat) :=
  [(7, encode (synR 5 500000)), (8, encode (synR 6 2000000)), (7, encode (.hsAck 77)), (8, encode (.hsAck 88))]

/-- `max_send_rate` and `send_rate` of the half connection for address `a`, if it is active. -/
def rateOf (s : Server HN) (a : Nat) : Option (Nat × Nat) :=
  match s.find a with
  | some c =>
    match c.state with
    | .active h _ _ => some (h.rate.maxSendRate, h.rate.sendRate)
    | _ => none
  | none => none

theorem exSrvC_rates : rateOf exSrvC 7 = some (500000, 1472) ∧ rateOf exSrvC 8 = some (1000000, 1472) ∧
    cfg0.ep.maxSendRate % 2^32 = 1000000 ∧ exSrvC.active = [0, 1] := by decide +kernel

/-- `exSrvC` is the state `handle_frames` reaches from the fresh server on the four ENCODED datagrams. -/
theorem exSrvC_from_bytes : ∃ sent, exSrv0.handleFrames hcN exHandshakeC 1 1000000 = .ok (exSrvC, sent) := by
  have i0 : SrvInv Uflow.HcInv.HcInv Uflow.HcInv.lastNow 1000000 exSrv0 := SrvInv.init _ _ _ _
  obtain ⟨s1, sent1, h1, i1⟩ := srv_handleFrame_ok hcN_ok i0 7 (synR 5 500000) 1
  obtain ⟨s2, sent2, h2, i2⟩ := srv_handleFrame_ok hcN_ok i1 8 (synR 6 2000000) 1
  obtain ⟨s3, sent3, h3, i3⟩ := srv_handleFrame_ok hcN_ok i2 7 (.hsAck 77) 1
  obtain ⟨s4, sent4, h4, i4⟩ := srv_handleFrame_ok hcN_ok i3 8 (.hsAck 88) 1
  have e : exSrvC = s4 := by
    unfold exSrvC
    rw [feed_eq h1, feed_eq h2, feed_eq h3, feed_eq h4]
  rw [e]
  refine ⟨sent1 ++ (sent2 ++ (sent3 ++ (sent4 ++ []))), ?_⟩
  unfold exHandshakeC
  rw [handleFrames_cons_decoded hcN exSrv0 7 _ _ 1 1000000 (synR 5 500000)
      (dec_enc _ (by decide) (by rw [synR, encode_syn_length]; decide)) h1,
    handleFrames_cons_decoded hcN s1 8 _ _ 1 1000000 (synR 6 2000000)
      (dec_enc _ (by decide) (by rw [synR, encode_syn_length]; decide)) h2,
    handleFrames_cons_decoded hcN s2 7 _ _ 1 1000000 (.hsAck 77) (dec_enc _ (by decide) (by decide)) h3,
    handleFrames_cons_decoded hcN s3 8 _ _ 1 1000000 (.hsAck 88) (dec_enc _ (by decide) (by decide)) h4]
  rfl

/-- The client of `EpNoTrapEx` (nonce 55, `max_send_rate = 1000000`) after a SYN-ACK advertising
`max_receive_rate = 300000` (fed as a decoded frame at 1 ms). -/
def exCliC : Client HN :=
  match exCli0.handleFrame hcN (.synAck 55 88 300000 1000 100000) 1 1000000 with
  | .ok (c, _) => c
  | .error _ => exCli0

def cRateOf (c : Client HN) : Option (Nat × Nat) :=
  match c.state with
  | .active _ h _ _ => some (h.rate.maxSendRate, h.rate.sendRate)
  | _ => none

theorem exCliC_rates : cRateOf exCliC = some (300000, 1472) ∧ ep0.maxSendRate % 2^32 = 1000000 := by
  decide +kernel

/-- The same client after a SYN-ACK advertising `max_receive_rate = 1472` (one frame per second). -/
def exCliL : Client HN :=
  match exCli0.handleFrame hcN (.synAck 55 88 1472 1000 100000) 1 1000000 with
  | .ok (c, _) => c
  | .error _ => exCli0

/-- The SYN-ACK of `exCliL`, as a datagram. -/
def synAckL : List Nat := encode (.synAck 55 88 1472 1000 100000)

/-- `exCliL` (active since 1 ms, ceiling 1472 B/s, nothing queued) receives 170 copies of its SYN-ACK
in a `step` at 1 ms: it answers each with a 9-byte handshake ACK — 170 datagrams, 1530 bytes, all equal
to `encode (.hsAck 88)`, in zero elapsed time; it stays active with the same ceiling. -/
def exHsAckChk : Bool :=
  match exCliL.step hcN 1000000 (List.replicate 170 synAckL) with
  | .ok (c', sent, _) =>
    sent.length == 170 && (sent.map List.length).sum == 1530 && sent.all (· == encode (.hsAck 88)) &&
    cRateOf c' == some (1472, 1472)
  | .error _ => false

theorem exHsAckChk_true : cRateOf exCliL = some (1472, 1472) ∧ exHsAckChk = true := by decide +kernel

end Uflow.EpCeil.Ex
