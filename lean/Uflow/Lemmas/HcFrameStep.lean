import Uflow.Lemmas.HcFrame

namespace Uflow.HcFrame

open Uflow Uflow.Gen Uflow.Codec Uflow.HalfConn
open Uflow.Rate (FloatOps)

variable {F : Type}

/-! ### `fillFlushAlloc` and `step` -/

/-- The bytes credited by the fill at time `now` (0 before the first flush time is recorded). -/
def stepCredit (ops : FloatOps F) (s : State F) (now : Nat) : Int :=
  match s.timeLastFlushed with
  | some last => (ops.fillBytes s.rate.sendRate (now - last) s.flushFrac).1
  | none => 0

theorem fill_some (ops : FloatOps F) (s : State F) (now last : Nat)
    (h : s.timeLastFlushed = some last) :
    (fillFlushAlloc ops s now).flushAlloc =
      min (satAdd s.flushAlloc (ops.fillBytes s.rate.sendRate (now - last) s.flushFrac).1)
        (ops.fillMax s.rate.sendRate s.rate.rttS) := by
  simp only [fillFlushAlloc, h]

theorem fill_none (ops : FloatOps F) (s : State F) (now : Nat) (h : s.timeLastFlushed = none) :
    (fillFlushAlloc ops s now).flushAlloc = s.flushAlloc := by
  simp only [fillFlushAlloc, h]

theorem fill_frame (ops : FloatOps F) (s : State F) (now : Nat) :
    (fillFlushAlloc ops s now).ps = s.ps ∧ (fillFlushAlloc ops s now).pending = s.pending ∧
    (fillFlushAlloc ops s now).resend = s.resend ∧ (fillFlushAlloc ops s now).flushId = s.flushId ∧
    (fillFlushAlloc ops s now).timeLastFlushed = some now := by
  cases h : s.timeLastFlushed <;> simp [fillFlushAlloc, h]

/-- The credit after a fill never exceeds the credit before plus the (non-negative part of the)
newly credited bytes. -/
theorem fill_le (ops : FloatOps F) (s : State F) (now : Nat) :
    (fillFlushAlloc ops s now).flushAlloc ≤ max (s.flushAlloc + max (stepCredit ops s now) 0) isizeMin := by
  cases h : s.timeLastFlushed with
  | none =>
    rw [fill_none ops s now h]
    simp only [stepCredit, h]
    omega
  | some last =>
    rw [fill_some ops s now last h]
    simp only [stepCredit, h, satAdd]
    omega

/-- The last state update of `step`, with all its ingredients as variables. -/
theorem step_finish (sf s' : State F) (w : Nat) (fq : FrameQ.State) (rate : Rate.State F)
    (h : ({ sf with flushId := w, fq := fq, rate := rate } : State F) = s') :
    s'.flushAlloc = sf.flushAlloc ∧ s'.ps = sf.ps ∧ s'.pending = sf.pending ∧
    s'.resend = sf.resend ∧ s'.flushId = w ∧ s'.timeLastFlushed = sf.timeLastFlushed ∧
    s'.nowMs = sf.nowMs := by
  subst h
  exact ⟨rfl, rfl, rfl, rfl, rfl, rfl, rfl⟩

/-- `fillFlushAlloc` does not look at the clocks or the frame queue. -/
theorem fill_congr (ops : FloatOps F) (s : State F) (now n r t : Nat) (fq : FrameQ.State) :
    (fillFlushAlloc ops ({ s with nowMs := n, rttMs := r, rtoMs := t, fq := fq }) now).flushAlloc
      = (fillFlushAlloc ops s now).flushAlloc ∧
    (fillFlushAlloc ops ({ s with nowMs := n, rttMs := r, rtoMs := t, fq := fq }) now).ps = s.ps ∧
    (fillFlushAlloc ops ({ s with nowMs := n, rttMs := r, rtoMs := t, fq := fq }) now).pending = s.pending ∧
    (fillFlushAlloc ops ({ s with nowMs := n, rttMs := r, rtoMs := t, fq := fq }) now).resend = s.resend ∧
    (fillFlushAlloc ops ({ s with nowMs := n, rttMs := r, rtoMs := t, fq := fq }) now).flushId = s.flushId ∧
    (fillFlushAlloc ops ({ s with nowMs := n, rttMs := r, rtoMs := t, fq := fq }) now).timeLastFlushed = some now ∧
    (fillFlushAlloc ops ({ s with nowMs := n, rttMs := r, rtoMs := t, fq := fq }) now).nowMs = n := by
  cases hl : s.timeLastFlushed <;> simp [fillFlushAlloc, hl]

/-- The body of `HalfConn.step` with the clock / flush-id arithmetic and the calls into `FrameQ` and
`Rate` as parameters (written with the matchers of the model, so that `step_eq` is syntactic). -/
def stepP (ops : FloatOps F) (s : State F) (now nowMs : Nat) (w : Nat → Nat → Nat)
    (ff : FrameQ.State → Nat → Option Nat → R FrameQ.State)
    (gf : FrameQ.State → Nat → R (FrameQ.State × Option (Rate.Feedback F)))
    (rs : Rate.State F → Nat → Option (Rate.Feedback F) → R (Rate.State F × Option F))
    (rl : FrameQ.State → F → R FrameQ.State) : R (State F) :=
  have rttMs := s.rate.rttMs.getD INITIAL_RTT_ESTIMATE_MS
  have rtoMs := s.rate.rtoMs.getD INITIAL_RTO_ESTIMATE_MS
  have s : State F := { s with nowMs := nowMs, rttMs := rttMs, rtoMs := rtoMs }
  handleAckFrame.match_7 (fun _ => R (State F))
    (ff s.fq (nowMs - max (rttMs * FORGET_RTT_MULT) rtoMs) s.rate.rttMs)
    (fun t => Except.error t) fun fq =>
    have s : State F := fillFlushAlloc ops { s with fq := fq } now
    have s : State F := { s with flushId := w s.flushId 1 }
    step.match_5 (fun _ => R (State F)) (gf s.fq nowMs) (fun t => Except.error t)
      fun fq fb =>
      step.match_3 (fun _ => R (State F)) (rs s.rate nowMs fb) (fun t => Except.error t)
        fun rate reset =>
        step.match_1 (fun _ => R (State F)) reset
          (fun _ => Except.ok { s with fq := fq, rate := rate })
          fun p =>
          handleAckFrame.match_7 (fun _ => R (State F)) (rl fq p) (fun t => Except.error t)
            fun fq => Except.ok { s with fq := fq, rate := rate }

theorem step_eq (ops : FloatOps F) (s : State F) (now : Nat) :
    step ops s now =
      stepP ops s now ((now - s.timeBase) / 1000000) wadd32 FrameQ.forgetFrames
        (FrameQ.getFeedback ops) (Rate.step ops) (FrameQ.resetLossRate ops) := rfl

theorem stepP_frame (ops : FloatOps F) (s s' : State F) (now nowMs : Nat) (w : Nat → Nat → Nat)
    (ff : FrameQ.State → Nat → Option Nat → R FrameQ.State)
    (gf : FrameQ.State → Nat → R (FrameQ.State × Option (Rate.Feedback F)))
    (rs : Rate.State F → Nat → Option (Rate.Feedback F) → R (Rate.State F × Option F))
    (rl : FrameQ.State → F → R FrameQ.State)
    (h : stepP ops s now nowMs w ff gf rs rl = .ok s') :
    s'.flushAlloc = (fillFlushAlloc ops s now).flushAlloc ∧ s'.ps = s.ps ∧
    s'.pending = s.pending ∧ s'.resend = s.resend ∧ s'.flushId = w s.flushId 1 ∧
    s'.timeLastFlushed = some now ∧ s'.nowMs = nowMs := by
  unfold stepP at h
  simp only at h
  generalize ff s.fq _ _ = r1 at h
  cases r1 with
  | error t => cases h
  | ok fq =>
    obtain ⟨k1, k2, k3, k4, k5, k6, k7⟩ := fill_congr ops s now nowMs
      (s.rate.rttMs.getD INITIAL_RTT_ESTIMATE_MS) (s.rate.rtoMs.getD INITIAL_RTO_ESTIMATE_MS) fq
    simp only at h
    generalize gf _ _ = r2 at h
    cases r2 with
    | error t => cases h
    | ok v =>
      obtain ⟨fq2, fbk⟩ := v
      simp only at h
      generalize rs _ _ _ = r3 at h
      cases r3 with
      | error t => cases h
      | ok v3 =>
        obtain ⟨rate, reset⟩ := v3
        cases reset with
        | none =>
          simp only [Except.ok.injEq] at h
          obtain ⟨f1, f2, f3, f4, f5, f6, f7⟩ := step_finish _ s' _ fq2 rate h
          exact ⟨f1.trans k1, f2.trans k2, f3.trans k3, f4.trans k4, by rw [f5, k5],
            f6.trans k6, f7.trans k7⟩
        | some p =>
          simp only at h
          generalize rl fq2 p = r4 at h
          cases r4 with
          | error t => cases h
          | ok fq3 =>
            simp only [Except.ok.injEq] at h
            obtain ⟨f1, f2, f3, f4, f5, f6, f7⟩ := step_finish _ s' _ fq3 rate h
            exact ⟨f1.trans k1, f2.trans k2, f3.trans k3, f4.trans k4, by rw [f5, k5],
              f6.trans k6, f7.trans k7⟩

/-- `step` changes the credit exactly as `fillFlushAlloc` does, increments the flush id and leaves
the sender, the pending queue and the resend queue alone. -/
theorem step_frame (ops : FloatOps F) (s s' : State F) (now : Nat) (h : step ops s now = .ok s') :
    s'.flushAlloc = (fillFlushAlloc ops s now).flushAlloc ∧ s'.ps = s.ps ∧
    s'.pending = s.pending ∧ s'.resend = s.resend ∧ s'.flushId = wadd32 s.flushId 1 ∧
    s'.timeLastFlushed = some now ∧ s'.nowMs = (now - s.timeBase) / 1000000 := by
  rw [step_eq] at h
  exact stepP_frame ops s s' now _ _ _ _ _ _ h

end Uflow.HcFrame
