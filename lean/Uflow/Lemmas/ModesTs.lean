import Uflow.Lemmas.ModesFlush

/-!
C12, TimeSensitive packets: a packet that was pulled into the pending queue but none of whose
fragments could be sent in the flush it was queued for is dropped (the pending queue is cleared)
by the next flush with another flush id; nothing of it is put on the wire.
-/

namespace Uflow.Modes

open Uflow Uflow.Gen Uflow.Codec Uflow.HalfConn Uflow.Wire Uflow.Heap Uflow.Credit
open Uflow.PSend (Dead NoExp UidInv)

variable {F : Type}

/-- The packet `u` (= `p`) is TimeSensitive, was queued for another flush than the current one, and
its fragment 0 is still at the head of the pending queue (so none of its fragments has been sent)
and not acknowledged. -/
structure Doomed (s : State F) (u : Nat) (p : PSend.Pending) : Prop where
  head : ∃ r rest, s.pending = ({ uid := u, fid := 0, resend := r } : PEntry) :: rest
  found : PSend.findPacket s.ps u = some p
  expired : p.expired s.flushId = true
  unacked : 0 ∉ p.acked

theorem Doomed.congr {s s' : State F} {u : Nat} {p : PSend.Pending} (hd : Doomed s u p)
    (hps : s'.ps = s.ps) (hpe : s'.pending = s.pending) (hfl : s'.flushId = s.flushId) :
    Doomed s' u p :=
  ⟨by rw [hpe]; exact hd.head, by rw [hps]; exact hd.found, by rw [hfl]; exact hd.expired, hd.unacked⟩

theorem Doomed.not_in_resend {s : State F} {u : Nat} {p : PSend.Pending} (hd : Doomed s u p)
    (hT : TInv s) : ∀ r ∈ s.resend.toList, r.uid ≠ u := by
  intro r hr he
  have := hT.res_noexp r hr p (by rw [he]; exact hd.found)
  have hx := hd.expired
  simp [PSend.Pending.expired, this] at hx

theorem Doomed.lt {s : State F} {u : Nat} {p : PSend.Pending} (hd : Doomed s u p) (hq : QInv s) :
    u < s.ps.nextUid := by
  obtain ⟨r, rest, hp⟩ := hd.head
  exact hq.pend_lt ⟨u, 0, r⟩ (by rw [hp]; simp)

/-- `resendLoopT` leaves the sender, the pending queue and the flush id alone; every identity in
the resend queue afterwards, and every identity pushed, was in the resend queue at the start. -/
theorem resendLoopT_frame (fuel : Nat) (e e' : Emit F) (tr tr' : List Push) (st : Option Stage)
    (h : resendLoopT fuel e tr = .ok (e', st, tr')) :
    e'.s.ps = e.s.ps ∧ e'.s.pending = e.s.pending ∧ e'.s.flushId = e.s.flushId ∧
    (∀ r ∈ e'.s.resend.toList, ∃ r0 ∈ e.s.resend.toList, r0.uid = r.uid) ∧
    ∃ add, tr' = tr ++ add ∧ ∀ x ∈ add, ∃ r0 ∈ e.s.resend.toList, r0.uid = x.uid := by
  induction fuel generalizing e tr with
  | zero => simp [resendLoopT] at h
  | succ n ih =>
    unfold resendLoopT at h
    cases h0 : e.s.resend[0]? with
    | none =>
      simp only [h0] at h
      cases h
      exact ⟨rfl, rfl, rfl, fun r hr => ⟨r, hr, rfl⟩, [], by simp, fun x hx => by cases hx⟩
    | some entry =>
      obtain ⟨hh, hpop⟩ := heapPop_isSome e.s.resend entry h0
      have hmem := fun x => mem_heapPop e.s.resend hh entry x hpop
      simp only [h0, hpop] at h
      -- the step "pop the top entry and go on"
      have hskip : ∀ (h' : resendLoopT n ({ e with s := { e.s with resend := hh } }) tr = .ok (e', st, tr')),
          e'.s.ps = e.s.ps ∧ e'.s.pending = e.s.pending ∧ e'.s.flushId = e.s.flushId ∧
          (∀ r ∈ e'.s.resend.toList, ∃ r0 ∈ e.s.resend.toList, r0.uid = r.uid) ∧
          ∃ add, tr' = tr ++ add ∧ ∀ x ∈ add, ∃ r0 ∈ e.s.resend.toList, r0.uid = x.uid := by
        intro h'
        obtain ⟨i1, i2, i3, i4, add, i5, i6⟩ := ih _ _ h'
        refine ⟨i1, i2, i3, ?_, add, i5, ?_⟩
        · intro r hr
          obtain ⟨r0, hr0, he⟩ := i4 r hr
          exact ⟨r0, (hmem r0).mpr (.inr hr0), he⟩
        · intro x hx
          obtain ⟨r0, hr0, he⟩ := i6 x hx
          exact ⟨r0, (hmem r0).mpr (.inr hr0), he⟩
      cases h1 : PSend.findPacket e.s.ps entry.uid with
      | none =>
        simp only [h1] at h
        exact hskip h
      | some p =>
        simp only [h1] at h
        split at h
        · exact hskip h
        · split at h
          · cases h
            exact ⟨rfl, rfl, rfl, fun r hr => ⟨r, hr, rfl⟩, [], by simp, fun x hx => by cases hx⟩
          · cases hpush : dfePush e p entry.fid true with
            | error t => rw [hpush] at h; cases h
            | ok v =>
              obtain ⟨e1, err⟩ := v
              rw [hpush] at h
              have htx := dfePush_tx e e1 p entry.fid true err hpush
              cases err with
              | some pe =>
                cases pe <;>
                · simp only [Except.ok.injEq, Prod.mk.injEq] at h
                  obtain ⟨rfl, _, rfl⟩ := h
                  exact ⟨htx.1, htx.2.1, htx.2.2.2.2.2,
                    fun r hr => ⟨r, by rw [← htx.2.2.1]; exact hr, rfl⟩, [], by simp,
                    fun x hx => by cases hx⟩
              | none =>
                simp only [htx.2.2.1, hpop] at h
                obtain ⟨i1, i2, i3, i4, add, i5, i6⟩ := ih _ _ h
                have htop : entry ∈ e.s.resend.toList := (hmem entry).mpr (.inl rfl)
                have hsub : ∀ r ∈ (heapPush hh ⟨entry.uid, entry.fid, e1.s.nowMs + e1.s.rttMs * 2 ^ entry.sendCount, min (entry.sendCount + 1) MAX_SEND_COUNT⟩).toList,
                    ∃ r0 ∈ e.s.resend.toList, r0.uid = r.uid := by
                  intro r hr
                  rw [mem_heapPush] at hr
                  rcases hr with rfl | hr
                  · exact ⟨entry, htop, rfl⟩
                  · exact ⟨r, (hmem r).mpr (.inr hr), rfl⟩
                refine ⟨i1.trans htx.1, i2.trans htx.2.1, i3.trans htx.2.2.2.2.2, ?_,
                  [{ uid := entry.uid, fid := entry.fid, resend := true, fromResend := true, flushId := e1.s.flushId, expiry := p.expiry }] ++ add,
                  by rw [i5, List.append_assoc], ?_⟩
                · intro r hr
                  obtain ⟨r0, hr0, he⟩ := i4 r hr
                  obtain ⟨r1, hr1, he1⟩ := hsub r0 hr0
                  exact ⟨r1, hr1, he1.trans he⟩
                · intro x hx
                  rcases List.mem_append.mp hx with hx | hx
                  · simp only [List.mem_singleton] at hx
                    subst hx
                    exact ⟨entry, htop, rfl⟩
                  · obtain ⟨r0, hr0, he⟩ := i6 x hx
                    obtain ⟨r1, hr1, he1⟩ := hsub r0 hr0
                    exact ⟨r1, hr1, he1.trans he⟩

/-- `pendingInnerT` on a doomed state: the head is fragment 0 of the expired packet, the queue is
cleared and the loop ends without pushing anything. -/
theorem pendingInnerT_doomed (n : Nat) (e : Emit F) (tr : List Push) (u : Nat) (p : PSend.Pending)
    (hd : Doomed e.s u p) :
    pendingInnerT (n + 2) e tr = .ok ({ e with s := { e.s with pending := [] } }, none, tr) := by
  obtain ⟨r, rest, hp⟩ := hd.head
  simp [pendingInnerT, hp, hd.found, hd.unacked, hd.expired]

/-- One iteration of `pendingOuterT` on a doomed state only clears the pending queue. -/
theorem pendingOuterT_doomed (n : Nat) (e : Emit F) (tr : List Push) (u : Nat) (p : PSend.Pending)
    (hd : Doomed e.s u p) :
    pendingOuterT (n + 1) e tr = pendingOuterT n { e with s := { e.s with pending := [] } } tr := by
  obtain ⟨r, rest, hp⟩ := hd.head
  have hne : e.s.pending.isEmpty = false := by rw [hp]; rfl
  rw [pendingOuterT]
  have hrf : refill e = .ok (e, true) := by
    unfold refill
    rw [hne]
    rfl
  rw [hrf]
  simp only
  have hlen : e.s.pending.length + 2 = (e.s.pending.length) + 2 := rfl
  rw [pendingInnerT_doomed _ e tr u p hd]

/-- `emitDataFramesT` on a doomed state: nothing of the packet is pushed; afterwards the state is
still doomed (the flush ended before reaching the pending queue) or no fragment of the packet is
in either queue. -/
theorem emitDataFramesT_doomed (s s' : State F) (out : List (List Nat)) (st : Stage)
    (tr : List Push) (u : Nat) (p : PSend.Pending) (hq : QInv s) (hT : TInv s)
    (hd : Doomed s u p) (h : emitDataFramesT s = .ok (s', out, st, tr)) :
    (∀ x ∈ tr, x.uid ≠ u) ∧ (Doomed s' u p ∨ ∀ k, Absent s' u k) := by
  unfold emitDataFramesT at h
  simp only at h
  cases hr : resendLoopT (2 * s.resend.size + 16 + s.flushAlloc.toNat)
      ({ s := s, inProg := none, out := [] } : Emit F) [] with
  | error t => rw [hr] at h; cases h
  | ok v =>
    obtain ⟨e1, st1, tr1⟩ := v
    rw [hr] at h
    obtain ⟨add1, hadd1, hs1⟩ := resendLoopT_spec _ _ e1 [] tr1 st1 hq hr
    obtain ⟨f1, f2, f3, _, add1', hadd1', f5⟩ := resendLoopT_frame _ _ e1 [] tr1 st1 hr
    rw [List.nil_append] at hadd1 hadd1'
    subst hadd1'
    have hd1 : Doomed e1.s u p := hd.congr f1 f2 f3
    have hnr := hd.not_in_resend hT
    have hno1 : ∀ x ∈ tr1, x.uid ≠ u := by
      intro x hx he
      obtain ⟨r0, hr0, he0⟩ := f5 x hx
      exact hnr r0 hr0 (he0.trans he)
    cases st1 with
    | some st1 =>
      simp only [Except.ok.injEq, Prod.mk.injEq] at h
      obtain ⟨rfl, _, _, rfl⟩ := h
      exact ⟨hno1, .inl hd1⟩
    | none =>
      simp only at h
      -- the outer loop has at least one iteration of fuel: it clears the pending queue
      have hfuel : e1.s.ps.queue.length + e1.s.pending.length + 4 =
          (e1.s.ps.queue.length + e1.s.pending.length + 3) + 1 := rfl
      rw [hfuel, pendingOuterT_doomed _ e1 tr1 u p hd1] at h
      have hclr : Spec e1.s [] ({ e1.s with pending := [] } : State F) := by
        obtain ⟨r, rest, hp⟩ := hd1.head
        exact spec_quiet e1.s _ hs1.inv rfl rfl rfl rfl ⟨e1.s.pending, (List.append_nil _).symm⟩
      have hT1 := hs1.tinv hT
      have hnr1 := hd1.not_in_resend hT1
      have habs : ∀ k, Absent ({ e1.s with pending := [] } : State F) u k := by
        intro k
        refine ⟨?_, ?_⟩
        · rintro ⟨pe, hpe, _⟩; cases hpe
        · rintro ⟨r, hr, he, _⟩; exact hnr1 r hr he
      have hlt : u < ({ e1.s with pending := [] } : State F).ps.nextUid := hd1.lt hs1.inv
      cases hp : pendingOuterT (e1.s.ps.queue.length + e1.s.pending.length + 3)
          ({ e1 with s := { e1.s with pending := [] } }) tr1 with
      | error t => rw [hp] at h; cases h
      | ok v2 =>
        obtain ⟨e2, st2, tr2⟩ := v2
        rw [hp] at h
        obtain ⟨add2, hadd2, hs2⟩ := pendingOuterT_spec _ _ e2 tr1 tr2 st2 hclr.inv hp
        subst hadd2
        have hno2 : ∀ x ∈ tr1 ++ add2, x.uid ≠ u := by
          intro x hx he
          rcases List.mem_append.mp hx with hx | hx
          · exact hno1 x hx he
          · exact (hs2.absent u x.fid hlt (habs x.fid)).2 x hx ⟨he, rfl⟩
        have habs2 : ∀ k, Absent e2.s u k := fun k => (hs2.absent u k hlt (habs k)).1
        cases st2 with
        | some st2 =>
          simp only [Except.ok.injEq, Prod.mk.injEq] at h
          obtain ⟨rfl, _, _, rfl⟩ := h
          exact ⟨hno2, .inr habs2⟩
        | none =>
          simp only [Except.ok.injEq, Prod.mk.injEq] at h
          obtain ⟨rfl, _, _, rfl⟩ := h
          refine ⟨hno2, .inr fun k => ?_⟩
          have htx := dfeFinalize_tx e2
          obtain ⟨a1, a2⟩ := habs2 k
          exact ⟨fun hp' => a1 ((inPending_congr htx.2.1 u k).mp hp'),
            fun hr' => a2 ((inResend_congr htx.2.2.1 u k).mp hr')⟩

/-- `flushT` on a doomed state (see `emitDataFramesT_doomed`). -/
theorem flushT_doomed (s s' : State F) (out : List (List Nat)) (tr : List Push) (u : Nat)
    (p : PSend.Pending) (hq : QInv s) (hT : TInv s) (hd : Doomed s u p)
    (h : flushT s = .ok (s', out, tr)) :
    (∀ x ∈ tr, x.uid ≠ u) ∧ (Doomed s' u p ∨ ∀ k, Absent s' u k) := by
  unfold flushT at h
  have hack := emitAckFrames_tx s
  generalize emitAckFrames s = a at h hack
  obtain ⟨s1, out1, st1⟩ := a
  simp only at h hack
  have hs1 := spec_txSame s s1 hq hack
  have hd1 : Doomed s1 u p := hd.congr hack.1 hack.2.1 hack.2.2.2.2.2
  split at h
  · simp only [Except.ok.injEq, Prod.mk.injEq] at h
    obtain ⟨rfl, _, rfl⟩ := h
    exact ⟨fun x hx => (by cases hx), .inl hd1⟩
  · cases hdf : emitDataFramesT s1 with
    | error t => rw [hdf] at h; cases h
    | ok v =>
      obtain ⟨s2, out2, st2, tr2⟩ := v
      rw [hdf] at h
      obtain ⟨hno, hcase⟩ := emitDataFramesT_doomed s1 s2 out2 st2 tr2 u p hs1.inv (hs1.tinv hT) hd1 hdf
      simp only at h
      split at h
      · simp only [Except.ok.injEq, Prod.mk.injEq] at h
        obtain ⟨rfl, _, rfl⟩ := h
        exact ⟨hno, hcase⟩
      · cases hy : emitSyncFrame s2 with
        | error t => rw [hy] at h; cases h
        | ok v3 =>
          obtain ⟨s3, out3, st3⟩ := v3
          rw [hy] at h
          simp only [Except.ok.injEq, Prod.mk.injEq] at h
          obtain ⟨rfl, _, rfl⟩ := h
          have htx := emitSyncFrame_tx _ _ _ _ hy
          refine ⟨hno, ?_⟩
          rcases hcase with hd2 | habs
          · exact .inl (hd2.congr htx.1 htx.2.1 htx.2.2.2.2.2)
          · refine .inr fun k => ?_
            obtain ⟨a1, a2⟩ := habs k
            exact ⟨fun hp' => a1 ((inPending_congr htx.2.1 u k).mp hp'),
              fun hr' => a2 ((inResend_congr htx.2.2.1 u k).mp hr')⟩

end Uflow.Modes
