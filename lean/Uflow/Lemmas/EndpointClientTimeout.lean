import Uflow.Lemmas.EndpointClientSound

/-!
Client endpoint: the activity deadline (`timeoutTimeMs` of `active`) as a function of the run.

The client initialises the deadline to `activeTimeoutMs` (an ABSOLUTE clock value, not
`now + activeTimeoutMs` — known finding F9, mirrored from the Rust code); every data/sync/ack frame
processed while `active` sets it to `now + activeTimeoutMs`. Ghost variable: the clock of the last step
that processed such a frame since the connection was established (`none` if there was none yet);
invariant: `deadline = lastTraffic + activeTimeoutMs`, or `deadline = activeTimeoutMs` if `none`.
-/

namespace Uflow.Endpoint

open Uflow.Gen Uflow.Codec Uflow.HalfConn

variable {H : Type}

def CState.isActive : CState H → Bool
  | .active .. => true
  | _ => false

theorem CState.isActive_false {s : CState H} (h : s.isActive = false) :
    ∀ ln hh t sig, s ≠ .active ln hh t sig := by
  intro _ _ _ _ he; rw [he] at h; cases h

/-! ## The arrivals of the step that establishes the connection -/

/-- Scanning the arrivals of a step of a `pending` client with nonce `ln`: `none` until the first
SYN-ACK echoing `ln` has been seen; afterwards `some tr`, where `tr` tells whether a data/sync/ack frame
has followed it. -/
def estStep (ln : Nat) (st : Option Bool) (b : List Nat) : Option Bool :=
  match decode (b.take MAX_FRAME_SIZE) with
  | none => st
  | some f =>
    match st with
    | none =>
      (match f with
       | .synAck na _ _ _ _ => if na = ln then some false else none
       | _ => none)
    | some tr => some (tr || isTraffic f)

def estScan (ln : Nat) (l : List (List Nat)) : Option Bool := l.foldl (estStep ln) none

theorem estScan_snoc (ln : Nat) (pre : List (List Nat)) (b : List Nat) :
    estScan ln (pre ++ [b]) = estStep ln (estScan ln pre) b := by
  simp [estScan, List.foldl_append]

/-- The deadline written by the arrivals of a step at `nowMs` that started `pending`. -/
def Client.estDeadline (c : Client H) (nowMs : Nat) (tr : Bool) : Nat :=
  if tr then nowMs + c.ep.activeTimeoutMs else c.ep.activeTimeoutMs

/-- The arrivals of one step, started in `pending`, deadline-wise. -/
theorem Client.arrivalsPhase_pending_deadline (hc : HC H) (c c' : Client H) (nowMs nowNs : Nat)
    (arrivals sent : List (List Nat)) (ln : Nat) (req : List Nat) (rt rc : Nat)
    (sends : List (List Nat × Nat × SendMode)) (hs : c.state = .pending ln req rt rc sends)
    (h : c.arrivalsPhase hc nowMs nowNs arrivals = .ok (c', sent)) :
    c'.ep = c.ep ∧
    ((estScan ln arrivals = none ∧ c' = c) ∨ c'.state.terminal ∨
     ∃ tr h', estScan ln arrivals = some tr ∧ c'.state = .active ln h' (c.estDeadline nowMs tr) none) := by
  refine Client.arrivalsPhase_induct' hc nowMs nowNs
    (fun pre x _ => x.ep = c.ep ∧
      ((estScan ln pre = none ∧ x = c) ∨ x.state.terminal ∨
       ∃ tr h', estScan ln pre = some tr ∧ x.state = .active ln h' (c.estDeadline nowMs tr) none))
    ?_ ?_ arrivals c c' sent ⟨rfl, Or.inl ⟨rfl, rfl⟩⟩ h
  · intro pre b x s ⟨hep, hp⟩ hd
    refine ⟨hep, ?_⟩
    rw [estScan_snoc]
    unfold estStep
    rw [hd]
    exact hp
  · intro pre b x s f x' out ⟨hep, hp⟩ hd hf
    have hep' : x'.ep = c.ep := (Client.handleFrame_CTr hc x x' f nowMs nowNs out hf).1.trans hep
    refine ⟨hep', ?_⟩
    rw [estScan_snoc]
    unfold estStep
    rw [hd]
    rcases hp with ⟨hsc, rfl⟩ | ht | ⟨tr, h', hsc, hsx⟩
    · rw [hsc]
      rw [Client.handleFrame_pending hc x f nowMs nowNs ln req rt rc sends hs] at hf
      cases f with
      | synAck na n r p a =>
        simp only at hf ⊢
        split at hf <;> cases hf
        · next hna =>
          rw [if_pos hna]
          exact Or.inr (Or.inr ⟨false, _, rfl, rfl⟩)
        · next hna =>
          rw [if_neg hna]
          exact Or.inl ⟨rfl, rfl⟩
      | hsError na e =>
        simp only at hf
        split at hf <;> cases hf
        · exact Or.inr (Or.inl (Or.inl rfl))
        · exact Or.inl ⟨rfl, rfl⟩
      | _ => cases hf; exact Or.inl ⟨rfl, rfl⟩
    · obtain ⟨rfl, -, -⟩ := Client.handleFrame_terminal hc x x' f nowMs nowNs out ht hf
      exact Or.inr (Or.inl ht)
    · rw [hsc]
      simp only
      rw [Client.handleFrame_active hc x f nowMs nowNs ln h' _ none hsx] at hf
      have traffic : ∀ f', isTraffic f' = true → ((match hc.dispatch h' f' with
          | .error e => .error e
          | .ok h'' => .ok ({ x with state := .active ln h'' (nowMs + x.ep.activeTimeoutMs) none }, [])) : R (Client H × List (List Nat)))
            = .ok (x', out) →
          ((some (tr || isTraffic f') = none ∧ x' = c) ∨ x'.state.terminal ∨
            ∃ tr' h2, some (tr || isTraffic f') = some tr' ∧ x'.state = .active ln h2 (c.estDeadline nowMs tr') none) := by
        intro f' hf' h
        split at h <;> cases h
        next h'' _ =>
        exact Or.inr (Or.inr ⟨true, h'', by simp [hf'], by simp [Client.estDeadline, hep]⟩)
      cases f with
      | disconnect =>
        simp only at hf
        split at hf <;> cases hf
        exact Or.inr (Or.inl (Or.inr ⟨_, rfl⟩))
      | data sid nn dgs => exact traffic _ rfl hf
      | sync a b => exact traffic _ rfl hf
      | ack a b cc => exact traffic _ rfl hf
      | _ => cases hf; exact Or.inr (Or.inr ⟨tr, h', by simp [isTraffic], hsx⟩)

/-! ## No way (back) into `active` except through the arrivals -/

theorem Client.handleEvents_active_back (c : Client H) (nowMs : Nat) (ln : Nat) (hh : H) (t : Nat)
    (sig : Option DisconnectMode) (hs' : (c.handleEvents nowMs).1.state = .active ln hh t sig) :
    c.state = .active ln hh t sig := by
  cases hs : c.state with
  | fin => rw [Client.handleEvents_fin c nowMs hs, hs] at hs'; cases hs'
  | closed t0 =>
    rw [Client.handleEvents_closed c nowMs t0 hs] at hs'
    simp only at hs'; split at hs'
    · cases hs'
    · rw [hs] at hs'; cases hs'
  | closing req rt rc =>
    rw [Client.handleEvents_closing c nowMs req rt rc hs] at hs'
    split at hs'
    · split at hs' <;> cases hs'
    · rw [hs] at hs'; cases hs'
  | pending ln' req' rt rc sends =>
    rw [Client.handleEvents_pending c nowMs ln' req' rt rc sends hs] at hs'
    split at hs'
    · split at hs' <;> cases hs'
    · rw [hs] at hs'; cases hs'
  | active ln' hh' t' sig' =>
    rw [Client.handleEvents_active c nowMs ln' hh' t' sig' hs] at hs'
    split at hs'
    · cases hs'
    · rw [hs] at hs'; exact hs'

theorem Client.stepPhase_active_back (hc : HC H) (c c' : Client H) (nowMs nowNs : Nat) (out : List (List Nat))
    (h : c.stepPhase hc nowMs nowNs = .ok (c', out)) (ln : Nat) (hh : H) (t : Nat) (sig : Option DisconnectMode)
    (hs' : c'.state = .active ln hh t sig) : ∃ h0, c.state = .active ln h0 t sig := by
  rcases CState.active_or_not c.state with ⟨ln0, h0, t0, sig0, hs⟩ | hna'
  · rw [Client.stepPhase_active hc c nowMs nowNs ln0 h0 t0 sig0 hs] at h
    split at h
    · split at h <;> cases h
      cases hs'
    · split at h
      · cases h
      · split at h <;> cases h
        cases hs'; exact ⟨h0, hs⟩
  · rw [Client.stepPhase_not_active hc c nowMs nowNs hna'] at h
    cases h; exact absurd hs' (hna' _ _ _ _)

/-- A step that starts `pending` (nonce `ln`) and ends `active`: the deadline is `activeTimeoutMs`
(absolute!) unless a data/sync/ack frame followed the SYN-ACK within the same step. -/
theorem Client.step_pending_deadline (hc : HC H) (c c' : Client H) (nowNs : Nat) (arrivals sent : List (List Nat))
    (evs : List CEvent) (ln : Nat) (req : List Nat) (rt rc : Nat) (sends : List (List Nat × Nat × SendMode))
    (hs : c.state = .pending ln req rt rc sends) (h : c.step hc nowNs arrivals = .ok (c', sent, evs))
    (ln' : Nat) (hh' : H) (t' : Nat) (sig' : Option DisconnectMode) (hs' : c'.state = .active ln' hh' t' sig') :
    ∃ tr, estScan ln arrivals = some tr ∧ t' = c.estDeadline (c.nowMs nowNs) tr := by
  obtain ⟨c1, s1, c2, s2, c4, s4, h1, h2, h4, rfl, rfl, rfl⟩ := Client.step_phases hc c c' nowNs arrivals sent evs h
  have hna : ∀ ln hh t sig, c.state ≠ .active ln hh t sig := by intro _ _ _ _ h; rw [hs] at h; cases h
  rw [Client.flush_not_active hc c hna] at h1
  cases h1
  simp only at hs'
  obtain ⟨h0, hs3⟩ := Client.stepPhase_active_back hc _ c4 _ nowNs s4 h4 ln' hh' t' sig' hs'
  have hs2 := Client.handleEvents_active_back c2 _ ln' h0 t' sig' hs3
  obtain ⟨-, hcase⟩ := Client.arrivalsPhase_pending_deadline hc c c2 _ nowNs arrivals s2 ln req rt rc sends hs h2
  rcases hcase with ⟨_, rfl⟩ | ht | ⟨tr, h', hsc, hsx⟩
  · rw [hs] at hs2; cases hs2
  · exact absurd hs2 (CState.terminal_not_active ht _ _ _ _)
  · rw [hsx] at hs2; cases hs2; exact ⟨tr, hsc, rfl⟩

/-! ## Ghost: clock of the last data/sync/ack frame since the connection was established -/

/-- The clock (ms) of the last step that processed a data/sync/ack frame on the established connection;
`none` while there has been none. -/
def Client.touch (c : Client H) (g : Option Nat) : COp → Option Nat
  | .step n a =>
    match c.state with
    | .active .. => if hasTraffic a then some (c.nowMs n) else g
    | .pending ln .. => if estScan ln a = some true then some (c.nowMs n) else none
    | _ => g
  | _ => g

/-- The deadline an `active` client must have, given the ghost. -/
def Client.deadlineOf (c : Client H) (g : Option Nat) : Nat :=
  match g with
  | some g0 => g0 + c.ep.activeTimeoutMs
  | none => c.ep.activeTimeoutMs

/-- The activity deadline is `last traffic + activeTimeoutMs`, or the initial `activeTimeoutMs`. -/
def Client.TInv (c : Client H) (g : Option Nat) : Prop :=
  ∀ ln hh t sig, c.state = .active ln hh t sig → t = c.deadlineOf g

theorem Client.apply_TInv (hc : HC H) (c c' : Client H) (op : COp) (sent : List (List Nat)) (evs : List CEvent)
    (h : c.apply hc op = .ok (c', sent, evs)) (he : c.eventsOut = []) (g : Option Nat) (hi : c.TInv g) :
    c'.TInv (c.touch g op) := by
  obtain ⟨hep, -⟩ := Client.apply_same hc c c' op sent evs h
  have hdl : ∀ g', c'.deadlineOf g' = c.deadlineOf g' := by intro g'; unfold Client.deadlineOf; rw [hep]
  cases op with
  | step n a =>
    intro ln' hh' t' sig' hs'
    rw [hdl]
    cases hs : c.state with
    | active ln hh t sig =>
      simp only [Client.touch, hs]
      obtain ⟨-, hcase⟩ := Client.step_active hc c c' n a sent evs ln hh t sig hs he h
      rcases hcase with ⟨_, _, hx, _⟩ | ⟨_, _, _, _, _, _, _, _, hx, _⟩ | ⟨_, _, _, _, _, _, _, _, _, hx, _⟩ | ⟨_, hx, _⟩
      · rw [hx] at hs'; cases hs'
      · rw [hx] at hs'; cases hs'
      · rw [hx] at hs'; cases hs'
        unfold Client.deadlineAfter
        cases hasTraffic a with
        | true => simp [Client.deadlineOf]
        | false => simpa using hi _ _ _ _ hs
      · exact absurd hs' (CState.terminal_not_active hx _ _ _ _)
    | pending ln req rt rc sends =>
      simp only [Client.touch, hs]
      obtain ⟨tr, hsc, ht'⟩ := Client.step_pending_deadline hc c c' n a sent evs ln req rt rc sends hs h ln' hh' t' sig' hs'
      rw [ht', hsc]
      cases tr <;> simp [Client.estDeadline, Client.deadlineOf]
    | closing req rt rc =>
      exfalso
      obtain ⟨-, hcase⟩ := Client.step_closing hc c c' n a sent evs req rt rc hs he h
      rcases hcase with ⟨_, hx, _⟩ | ⟨_, _, hx, _⟩ | ⟨_, _, hx, _⟩ | ⟨hx, _⟩
      · rw [hx] at hs'; cases hs'
      · rw [hx] at hs'; cases hs'
      · rw [hx] at hs'; cases hs'
      · exact CState.terminal_not_active hx _ _ _ _ hs'
    | closed t0 =>
      exfalso
      obtain ⟨hx, -⟩ := Client.step_terminal hc c c' n a sent evs (Or.inr ⟨t0, hs⟩) h
      exact CState.terminal_not_active hx _ _ _ _ hs'
    | fin =>
      exfalso
      obtain ⟨hx, -⟩ := Client.step_terminal hc c c' n a sent evs (Or.inl hs) h
      exact CState.terminal_not_active hx _ _ _ _ hs'
  | send d ch m =>
    cases h
    simp only [Client.touch]
    intro ln hh t sig hs'
    rw [hdl]
    unfold Client.send at hs'
    split at hs'
    · cases hs'
    · next hs => cases hs'; exact hi _ _ _ _ hs
    · exact hi _ _ _ _ hs'
  | disconnect m =>
    cases h
    simp only [Client.touch]
    intro ln hh t sig hs'
    rw [hdl]
    unfold Client.disconnect at hs'
    split at hs'
    · cases hs'
    · next hs => cases hs'; exact hi _ _ _ _ hs
    · exact hi _ _ _ _ hs'
  | flush =>
    simp only [Client.apply] at h
    split at h
    · cases h
    · next c1 s1 hf =>
      cases h
      simp only [Client.touch]
      intro ln' hh' t' sig' hs'
      rw [hdl]
      rcases CState.active_or_not c.state with ⟨ln, hh, t, sig, hs⟩ | hna'
      · rw [Client.flush_active hc c ln hh t sig hs] at hf
        split at hf <;> cases hf
        cases hs'
        exact hi _ _ _ _ hs
      · rw [Client.flush_not_active hc c hna'] at hf
        cases hf; exact hi _ _ _ _ hs'

/-- A run, together with the ghost. -/
def Client.runG (hc : HC H) : Client H → Option Nat → List COp → R (Client H × Option Nat)
  | c, g, [] => .ok (c, g)
  | c, g, op :: ops =>
    match c.apply hc op with
    | .error e => .error e
    | .ok (c1, _, _) => Client.runG hc c1 (c.touch g op) ops

theorem Client.runG_of_run (hc : HC H) (ops : List COp) (c c' : Client H) (g : Option Nat) (sent : List (List Nat))
    (evs : List CEvent) (h : Client.run hc c ops = .ok (c', sent, evs)) :
    ∃ g', Client.runG hc c g ops = .ok (c', g') := by
  induction ops generalizing c g sent evs with
  | nil => cases h; exact ⟨g, rfl⟩
  | cons op ops ih =>
    simp only [Client.run] at h
    split at h
    · cases h
    · next c1 s1 e1 h1 =>
      split at h
      · cases h
      · next c2 s2 e2 h2 =>
        cases h
        simp only [Client.runG, h1]
        exact ih c1 _ s2 e2 h2

theorem Client.runG_TInv (hc : HC H) (ops : List COp) (c c' : Client H) (g g' : Option Nat)
    (h : Client.runG hc c g ops = .ok (c', g')) (he : c.eventsOut = []) (hi : c.TInv g) :
    c'.TInv g' ∧ c'.eventsOut = [] := by
  induction ops generalizing c g with
  | nil => cases h; exact ⟨hi, he⟩
  | cons op ops ih =>
    simp only [Client.runG] at h
    split at h
    · cases h
    · next c1 s1 e1 h1 =>
      have he1 := (Client.apply_monitor hc c c1 op s1 e1 h1 he _ (by
        show Compat c.state (match c.state with
          | .pending .. => .idle | .active .. => .conn | .closing .. => .conn | .closed _ => .done | .fin => .done)
        cases c.state <;> simp [Compat])).1
      exact ih c1 _ h he1 (Client.apply_TInv hc c c1 op s1 e1 h1 he g hi)

/-! ## Where `error timeout` comes from -/

/-- A timer of the state has run out at `nowMs` (handshake / disconnect retries exhausted, or the
activity deadline passed). -/
def Client.expired (c : Client H) (nowMs : Nat) : Prop :=
  match c.state with
  | .pending _ _ rt rc _ => nowMs ≥ rt ∧ rc = 0
  | .active _ _ t _ => nowMs ≥ t
  | .closing _ rt rc => nowMs ≥ rt ∧ rc = 0
  | _ => False

theorem Client.handleEvents_expired (c : Client H) (nowMs : Nat) (hx : c.expired nowMs) :
    c.handleEvents nowMs = ({ c with eventsOut := c.eventsOut ++ [CEvent.error .timeout], state := .fin }, []) := by
  unfold Client.expired at hx
  cases hs : c.state with
  | fin => simp [hs] at hx
  | closed t => simp [hs] at hx
  | closing req rt rc =>
    simp only [hs] at hx
    rw [Client.handleEvents_closing c nowMs req rt rc hs, if_pos hx.1, if_neg (by omega)]
  | pending ln' req' rt rc sends =>
    simp only [hs] at hx
    rw [Client.handleEvents_pending c nowMs ln' req' rt rc sends hs, if_pos hx.1, if_neg (by omega)]
  | active ln' hh t sig =>
    simp only [hs] at hx
    rw [Client.handleEvents_active c nowMs ln' hh t sig hs, if_pos hx]

theorem Client.handleEvents_not_expired (c : Client H) (nowMs : Nat) (hx : ¬ c.expired nowMs) :
    (c.handleEvents nowMs).1.eventsOut = c.eventsOut := by
  unfold Client.expired at hx
  cases hs : c.state with
  | fin => rw [Client.handleEvents_fin c nowMs hs]
  | closed t => rw [Client.handleEvents_closed c nowMs t hs]; simp only; split <;> rfl
  | closing req rt rc =>
    simp only [hs] at hx
    rw [Client.handleEvents_closing c nowMs req rt rc hs]
    split
    · split
      · rfl
      · exact absurd ⟨by assumption, by omega⟩ hx
    · rfl
  | pending ln' req' rt rc sends =>
    simp only [hs] at hx
    rw [Client.handleEvents_pending c nowMs ln' req' rt rc sends hs]
    split
    · split
      · rfl
      · exact absurd ⟨by assumption, by omega⟩ hx
    · rfl
  | active ln' hh t sig =>
    simp only [hs] at hx
    rw [Client.handleEvents_active c nowMs ln' hh t sig hs, if_neg hx]

theorem Client.handleFrame_no_timeout (hc : HC H) (c c' : Client H) (f : Frame) (nowMs nowNs : Nat)
    (out : List (List Nat)) (h : c.handleFrame hc f nowMs nowNs = .ok (c', out))
    (hm : CEvent.error .timeout ∈ c'.eventsOut) : CEvent.error .timeout ∈ c.eventsOut := by
  rcases Client.handleFrame_cases hc c c' f nowMs nowNs out h with
    ⟨rfl, _⟩ | ⟨_, _, _, _, _, _, _, _, _, _, _, rfl, _⟩ | ⟨_, _, _, _, _, _, _, _, hs, _, rfl, _⟩ |
    ⟨_, _, _, _, _, e, _, _, rfl, _⟩ | ⟨_, _, _, _, _, _, _, _, _, rfl, _⟩ | ⟨_, _, _, _, _, rfl, _⟩ |
    ⟨_, hs, _, rfl, _⟩ | ⟨_, _, _, _, _, rfl, _⟩ | ⟨_, _, _, _, _, _, _, _, rfl, _⟩
  all_goals first
    | exact hm
    | (simp only [List.mem_append, List.mem_map, List.mem_singleton] at hm
       rcases hm with hm | hm
       · first | exact hm | (rcases hm with hm | ⟨_, _, hm⟩ <;> first | exact hm | cases hm)
       · first | cases hm | (injection hm with hm; exact absurd hm.symm (errOfHs_ne_timeout e)))

theorem Client.stepPhase_no_timeout (hc : HC H) (c c' : Client H) (nowMs nowNs : Nat) (out : List (List Nat))
    (h : c.stepPhase hc nowMs nowNs = .ok (c', out))
    (hm : CEvent.error .timeout ∈ c'.eventsOut) : CEvent.error .timeout ∈ c.eventsOut := by
  rcases CState.active_or_not c.state with ⟨ln, hh, t, sig, hs⟩ | hna'
  · rw [Client.stepPhase_active hc c nowMs nowNs ln hh t sig hs] at h
    split at h
    · split at h <;> cases h
      simpa using hm
    · split at h
      · cases h
      · split at h <;> cases h
        simpa using hm
  · rw [Client.stepPhase_not_active hc c nowMs nowNs hna'] at h
    cases h; exact hm

/-- `error timeout` delivered by a step ⇒ after the arrivals of that step a timer of the state had
run out. -/
theorem Client.step_timeout_origin (hc : HC H) (c c' : Client H) (nowNs : Nat) (arrivals sent : List (List Nat))
    (evs : List CEvent) (h : c.step hc nowNs arrivals = .ok (c', sent, evs))
    (hm : CEvent.error .timeout ∈ evs) :
    CEvent.error .timeout ∈ c.eventsOut ∨
    ∃ c1 s1 c2 s2, c.flush hc = .ok (c1, s1) ∧ c1.arrivalsPhase hc (c.nowMs nowNs) nowNs arrivals = .ok (c2, s2) ∧
      c2.expired (c.nowMs nowNs) := by
  obtain ⟨c1, s1, c2, s2, c4, s4, h1, h2, h4, rfl, rfl, rfl⟩ := Client.step_phases hc c c' nowNs arrivals sent evs h
  have hm3 := Client.stepPhase_no_timeout hc _ c4 _ nowNs s4 h4 hm
  by_cases hx : c2.expired (c.nowMs nowNs)
  · exact Or.inr ⟨c1, s1, c2, s2, h1, h2, hx⟩
  · rw [Client.handleEvents_not_expired c2 _ hx] at hm3
    have hm1 : CEvent.error .timeout ∈ c1.eventsOut :=
      Client.arrivalsPhase_induct hc _ nowNs
        (fun x _ => CEvent.error .timeout ∈ x.eventsOut → CEvent.error .timeout ∈ c1.eventsOut)
        (fun _ _ _ _ _ hp hf hm => hp (Client.handleFrame_no_timeout hc _ _ _ _ _ _ hf hm))
        arrivals c1 [] c2 s2 id h2 hm3
    rw [(Client.flush_events hc c c1 s1 h1).1] at hm1
    exact Or.inl hm1

/-- Promptness: if after the arrivals of a step a timer has run out, that same step delivers
`error timeout` (after whatever the arrivals produced) and ends in `fin`; it cannot trap any more. -/
theorem Client.step_timeout_prompt (hc : HC H) (c c1 c2 : Client H) (nowNs : Nat) (arrivals s1 s2 : List (List Nat))
    (h1 : c.flush hc = .ok (c1, s1))
    (h2 : c1.arrivalsPhase hc (c.nowMs nowNs) nowNs arrivals = .ok (c2, s2))
    (hx : c2.expired (c.nowMs nowNs)) :
    c.step hc nowNs arrivals =
      .ok ({ c2 with eventsOut := [], state := .fin }, s1 ++ s2, c2.eventsOut ++ [CEvent.error .timeout]) := by
  rw [Client.step_eq, h1]
  simp only [h2, Client.handleEvents_expired c2 _ hx]
  rw [Client.stepPhase_not_active hc _ _ nowNs (by intro _ _ _ _ h; cases h)]
  simp


/-- (`omega` proofs with large additive literals overflow the kernel's recursion depth; done by hand.) -/
theorem ge_22000_of_ge {x y : Nat} (h : x ≥ y + 2000 + 2000 * 10) : x ≥ y + 22000 := by
  have e1 : y + 2000 + 2000 * 10 = y + (2000 + 2000 * 10) := Nat.add_assoc y 2000 (2000 * 10)
  have e2 : (2000 + 2000 * 10 : Nat) = 22000 := by decide
  rw [e1, e2] at h; exact h

end Uflow.Endpoint
