import Uflow.Lemmas.PSendHistRun
import Uflow.Lemmas.PSendAck

/-!
C20Hc, part 1: the send window in terms of the emission history. After any sequence of packet sender
operations run with the ghost history (`PSend.runH`), the emitted packets split into those that have
left the send window and those still in it, and the latter are the window entries, position by
position, with the same identity and payload.
-/

namespace Uflow.HcFlush

open Uflow Uflow.Gen Uflow.PSend
open Uflow.Props.C20 (Op)

/-- The emitted packets are `old ++ wl`, `wl` running parallel to the send window. -/
def WData (s : PSend.State) (h : Hist) : Prop :=
  ∃ old wl, h.emitted = old ++ wl ∧
    wl.map (fun e => (e.uid, e.data)) = s.win.map (fun w => (w.packet.uid, w.packet.data))

theorem wdata_init (w b a : Nat) : WData (PSend.init w b a) {} := ⟨[], [], rfl, rfl⟩

theorem wdata_stepH (s s' : PSend.State) (h h' : Hist) (op : Op) (hi : WData s h)
    (he : stepH s h op = .ok (s', h')) : WData s' h' := by
  obtain ⟨old, wl, hem, hw⟩ := hi
  cases op with
  | enq d c m f =>
    simp only [stepH, Except.ok.injEq, Prod.mk.injEq] at he
    obtain ⟨rfl, rfl⟩ := he
    exact ⟨old, wl, hem, hw⟩
  | emit f =>
    simp only [stepH] at he
    cases hr : emit s f with
    | error t => rw [hr] at he; cases he
    | ok v =>
      obtain ⟨s1, r⟩ := v
      rw [hr] at he
      obtain ⟨_, queue, total, _, _, _, hcase⟩ := emit_cases s s1 f r hr
      cases r with
      | none =>
        simp only [Except.ok.injEq, Prod.mk.injEq] at he
        obtain ⟨rfl, rfl⟩ := he
        rcases hcase with ⟨_, rfl⟩ | ⟨_, _, _, _, _, _, hc, _⟩
        · exact ⟨old, wl, hem, hw⟩
        · cases hc
      | some v =>
        obtain ⟨p, b⟩ := v
        simp only [Except.ok.injEq, Prod.mk.injEq] at he
        obtain ⟨rfl, rfl⟩ := he
        rcases hcase with ⟨hc, _⟩ | ⟨_, _, p', _, w, _, hc, _, _, _, _, _, _, _, _, hwp, _, hwin, _⟩
        · cases hc
        · simp only [Option.some.injEq, Prod.mk.injEq] at hc
          obtain ⟨rfl, _⟩ := hc
          refine ⟨old, wl ++ [mkEmitted s f p], by simp only []; rw [hem, List.append_assoc], ?_⟩
          rw [hwin, List.map_append, List.map_append, hw]
          simp only [List.map_cons, List.map_nil, mkEmitted, hwp]
  | ack rb =>
    simp only [stepH] at he
    cases hr : acknowledge s rb with
    | error t => rw [hr] at he; cases he
    | ok s1 =>
      rw [hr] at he
      simp only [Except.ok.injEq, Prod.mk.injEq] at he
      obtain ⟨rfl, rfl⟩ := he
      obtain ⟨⟨d, hd⟩, _, _⟩ := acknowledge_suffix s s1 rb hr
      refine ⟨old ++ wl.take d.length, wl.drop d.length, ?_, ?_⟩
      · rw [hem, List.append_assoc, List.take_append_drop]
      · rw [hd, List.map_append] at hw
        have := congrArg (List.drop d.length) hw
        rw [← List.map_drop] at this
        rw [this, List.drop_append_of_le_length (by simp), List.drop_of_length_le (by simp)]
        rfl
  | ackFrag u fid =>
    simp only [stepH, Except.ok.injEq, Prod.mk.injEq] at he
    obtain ⟨rfl, rfl⟩ := he
    refine ⟨old, wl, hem, ?_⟩
    rw [hw]
    simp only [ackFragment, List.map_map]
    apply List.map_congr_left
    intro w _
    simp only [Function.comp]
    split <;> rfl

theorem wdata_runH (ops : List Op) (s s' : PSend.State) (h h' : Hist) (hi : WData s h)
    (he : runH s h ops = .ok (s', h')) : WData s' h' := by
  induction ops generalizing s h with
  | nil =>
    simp only [runH, Except.ok.injEq, Prod.mk.injEq] at he
    obtain ⟨rfl, rfl⟩ := he
    exact hi
  | cons op rest ih =>
    simp only [runH] at he
    cases hs : stepH s h op with
    | error t => rw [hs] at he; cases he
    | ok r =>
      obtain ⟨s1, h1⟩ := r
      rw [hs] at he
      exact ih s1 h1 (wdata_stepH s s1 h h1 op hi hs) he

/-- The payload bytes of the send window are those of the emitted packets still in it. -/
theorem wdata_bytes {s : PSend.State} {wl : List Emitted}
    (hw : wl.map (fun e => (e.uid, e.data)) = s.win.map (fun w => (w.packet.uid, w.packet.data))) :
    wBytes s.win = (wl.map (fun e => e.data.length)).sum ∧ wl.length = s.win.length ∧
      wl.map Emitted.data = s.win.map (fun w => w.packet.data) := by
  have h1 := congrArg (List.map (fun x : Nat × List Nat => x.2)) hw
  simp only [List.map_map] at h1
  have h2 := congrArg List.length hw
  simp only [List.length_map] at h2
  refine ⟨?_, h2, h1⟩
  have h3 := congrArg (List.map List.length) h1
  simp only [List.map_map] at h3
  unfold wBytes
  rw [show (fun w : WEntry => w.packet.data.length) = (List.length ∘ (fun x : Nat × List Nat => x.2) ∘
    fun w : WEntry => (w.packet.uid, w.packet.data)) from rfl, ← h3]
  rfl

end Uflow.HcFlush
