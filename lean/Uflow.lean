-- Root of the `Uflow` library: generated constants, executable models, lemmas, property theorems.
import Uflow.Gen.Consts
import Uflow.Gen.CrcTable
import Uflow.Model.Crc
import Uflow.Model.Codec
import Uflow.Model.Basic
import Uflow.Model.PSend
import Uflow.Model.PRecv
import Uflow.Model.Rate
import Uflow.Model.FrameQ
import Uflow.Model.HalfConn
