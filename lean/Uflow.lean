-- Root of the `Uflow` library: generated constants, executable models, lemmas, property theorems.
import Uflow.Gen.Consts
import Uflow.Gen.CrcTable
import Uflow.Model.Crc
import Uflow.Model.Codec
