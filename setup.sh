#!/bin/sh
# Builds the framework from files on disk only (offline).
set -e
cd "$(dirname "$0")"
python3 tools/extract_consts.py
(cd lean && lake build Uflow uflow_driver)
cp /repo/Cargo.lock harness/Cargo.lock 2>/dev/null || true
(cd harness && CARGO_NET_OFFLINE=true cargo build --release --offline)
