#!/bin/sh
# Builds the framework from files on disk only (offline): constants regenerated from /repo/src, the Lean library with every
# property-theorem module (about 3 minutes from scratch on 16 cores; later `lake build`s in the checks are incremental), the model
# driver, the Rust harness against /repo's working tree.
set -e
cd "$(dirname "$0")"
python3 tools/extract_consts.py
(cd lean && lake build Uflow uflow_driver $(ls Uflow/Props/*.lean | sed 's#/#.#g; s#\.lean$##'))
cp /repo/Cargo.lock harness/Cargo.lock 2>/dev/null || true
(cd harness && CARGO_NET_OFFLINE=true cargo build --release --offline)
