#!/usr/bin/env python3
"""Finds constant PRNG seeds for the fixed reproducer cases of C10's open known findings (kfF9, kfF21 in tools/props/c10.py).
Needed again whenever handshake_delay_scenario / idle_scenario change the way they consume random numbers: a reproducer is a scenario
whose oracle result is exactly the finding's signature. Usage: python3 tools/find_kf_seeds.py  (prints candidate offsets k and script
lengths; put the shortest into the tuple in c10.streams)."""
import os, sys
sys.path.insert(0, os.path.dirname(os.path.abspath(__file__)))
import vlib
from checkflow import Interactive, SplitMix
from props import c10

def main():
    vlib.build_harness()
    it = Interactive("ep")
    found = {}
    want = {"F9": {"oracle": "timeout_sound", "side": "client", "cause": "deadline_counted_from_connect_call"},
            "F21": {"oracle": "keepalive", "cause": "keepalive_held_back_by_rto"}}
    try:
        for fam, name, base in ((c10.handshake_delay_scenario, "F9", 0xF900), (c10.idle_scenario, "F21", 0xF2100)):
            for k in range(1, 200):
                it.op("=== k%d" % k)
                sim = fam(SplitMix(base + k), it, "quick")
                fails = c10.oracle({"meta": {"x": sim}, "mode": "ep"}, "x", sim.ops, sim.outs)
                sigs = [f["signature"] for f in fails]
                if sigs and all(s == want[name] for s in sigs):
                    found.setdefault(name, []).append((k, len(sim.ops)))
                    if len(found[name]) >= 3:
                        break
    finally:
        it.close()
    print(found)

if __name__ == "__main__":
    main()
