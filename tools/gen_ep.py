"""Scenario generator for mode `ep`: a real Server and real Clients behind harness-owned relay
sockets. Runs with the implementation in the loop; the script is closed and replayed on the model."""
import re
from checkflow import Interactive
from gen_hc import parse_frames, gen_payload, digest, Packet, Net

DEFAULT_EP = dict(send=2_000_000, recv=2_000_000, maxpkt=1_000_000, alloc=1_000_000, ka=1, kams=5000, timeout=20000)

def ep_cfg_text(c):
    return "%d %d %d %d %d %d %d" % (c["send"], c["recv"], c["maxpkt"], c["alloc"], c["ka"], c["kams"], c["timeout"])

def parse_dgram(tok):
    """`len:fnv:body` -> dict(kind=..., ...). Handshake frames: body is the frame text with `_`."""
    ln, fv, body = tok.split(":", 2)
    d = {"len": int(ln), "fnv": fv, "raw": tok}
    if body[:2] in ("D,", "A,", "S,") or body in ("X", "O"):
        d["kind"] = body[0]
        d["body"] = body
        if body[0] == "D":
            parts = body.split(",")
            d["id"] = int(parts[1]); d["dgs"] = []
            for x in parts[3:]:
                y = x.split(".")
                d["dgs"].append({"seq": int(y[0]), "frag": int(y[1]), "last": int(y[2]), "chan": int(y[3]), "dlen": int(y[6]), "dfnv": y[7]})
    else:
        f = body.split("_")
        d["kind"] = f[0]; d["f"] = f
    return d

def parse_report(rep):
    """` 0> a b 0< c` -> list of (peer, dir, [dgram dicts])"""
    out = []; cur = None
    for tok in rep.split():
        m = re.match(r"^(\d+)([<>])$", tok)
        if m:
            cur = (int(m.group(1)), "c2s" if m.group(2) == ">" else "s2c", [])
            out.append(cur)
        elif cur is not None:
            cur[2].append(parse_dgram(tok))
    return out

class EpSim:
    def __init__(self, rng, inter=None):
        self.r = rng
        self.it = inter or Interactive("ep")
        self.own = inter is None
        self.ops = []; self.outs = []
        self.time = 0; self.tick = 0
        self.dead = False
        self.log = {}          # (peer, dir) -> list of dgram dicts (with time emitted)
        self.inflight = []     # (due, order, dir, peer, idx)
        self.order = 0
        self.delivered = []    # (time, dir, peer, idx or None, dgram dict)  datagrams handed to an endpoint
        self.sevents = []      # (time, tag, peer, extra)
        self.cevents = {}      # peer -> [(time, tag, extra)]
        self.clients = {}      # peer -> cfg
        self.calls = []        # (time, what, peer)
        self.sent = {}         # ("c", i) / ("s", i) -> [Packet]
        self.next_seed = 1 + (rng.next() & 0xFFFFF) * 4096
        self.srv_cfg = None
        self.op("t 0")

    def op(self, line):
        if self.dead:
            return "dead"
        out = self.it.op(line, timeout=30)
        self.ops.append(line); self.outs.append(out)
        if out.startswith("trap") or out in ("hang", "abort"):
            self.dead = True
        return out

    def set_time(self, t):
        self.time = t; self.op("t %d" % t)

    def absorb(self, out, nets):
        """parses the captured-datagram report of an op and schedules the datagrams on the network"""
        if "|" in out:
            rep = out.split("|", 1)[1]
        elif out.startswith("ok"):
            rep = out[2:]
        else:
            return
        for (peer, dr, dgs) in parse_report(rep):
            lst = self.log.setdefault((peer, dr), [])
            for d in dgs:
                d["time"] = self.time; d["idx"] = len(lst)
                lst.append(d)
                self.route(peer, dr, d, nets.get((peer, dr)) or nets.get(dr) or Net())

    def route(self, peer, dr, d, net):
        r = self.r
        fate_fn = getattr(self, "fate_fn", None)
        if fate_fn is not None:
            delays = fate_fn(self, peer, dr, d)     # None: leave it to `net`; []: lost; [d1, ...]: copies with these delays
            if delays is not None:
                d["fate"] = "drop" if not delays else "ok"
                for dl in delays:
                    self.order += 1
                    self.inflight.append((self.time + dl, self.order, dr, peer, d["idx"]))
                return
        if net.loss and r.below(1000) < net.loss:
            d["fate"] = "drop"; return
        copies = 1
        if net.dup and r.below(1000) < net.dup:
            copies += 1
        d["fate"] = "ok" if copies == 1 else "dup"
        for _ in range(copies):
            delay = net.latency + (r.below(net.jitter + 1) if net.jitter else 0)
            if net.reorder and r.below(1000) < net.reorder:
                delay += net.latency + r.below(4 * (net.jitter + 1) + 1)
            self.order += 1
            self.inflight.append((self.time + delay, self.order, dr, peer, d["idx"]))

    def deliver_due(self, dr, peer=None):
        due = sorted(x for x in self.inflight if x[2] == dr and (peer is None or x[3] == peer) and x[0] <= self.time)
        self.inflight = [x for x in self.inflight if not (x[2] == dr and (peer is None or x[3] == peer) and x[0] <= self.time)]
        for (_, _, d, p, idx) in due:
            o = self.op("fwd %s %d %d" % (d, p, idx))
            if o == "ok":
                self.delivered.append((self.time, d, p, idx, self.log[(p, d)][idx]))

    def raw(self, dr, peer, hexbytes, what):
        o = self.op("raw %s %d %s" % (dr, peer, hexbytes))
        if o == "ok":
            self.delivered.append((self.time, dr, peer, None, what))

    def srv(self, max_total, max_active, hs_errors, cfg):
        self.srv_cfg = dict(cfg, max_total=max_total, max_active=max_active, hs=hs_errors)
        self.op("srv %d %d %d %s" % (max_total, max_active, hs_errors, ep_cfg_text(cfg)))

    def cli(self, i, cfg, nets):
        self.clients[i] = cfg
        self.cevents[i] = []
        self.calls.append((self.time, "connect", i))
        out = self.op("cli %d %s" % (i, ep_cfg_text(cfg)))
        self.absorb(out, nets)

    def recli(self, i, cfg, nets):
        """a new client from the same address as peer i's previous one"""
        self.clients[i] = cfg
        self.cevents.setdefault("old%d" % len(self.calls), self.cevents.get(i, []))
        self.cevents[i] = []
        self.calls.append((self.time, "connect", i))
        out = self.op("recli %d %s" % (i, ep_cfg_text(cfg)))
        self.absorb(out, nets)

    def peer(self, i):
        self.op("peer %d" % i)

    def sstep(self, nets):
        self.deliver_due("c2s")
        out = self.op("sstep")
        if out.startswith("ev"):
            evs = out.split("|")[0].split()[1:]
            for e in evs:
                m = re.match(r"^([CDRE])(\d+|\?)(?::(.*))?$", e)
                if m:
                    self.sevents.append((self.time, m.group(1), int(m.group(2)) if m.group(2) != "?" else -1, m.group(3)))
            self.absorb(out, nets)
        return out

    def cstep(self, i, nets):
        self.deliver_due("s2c", i)
        out = self.op("cstep %d" % i)
        if out.startswith("ev"):
            evs = out.split("|")[0].split()[1:]
            for e in evs:
                tag = e[0]; extra = e[2:] if len(e) > 1 else None
                self.cevents[i].append((self.time, tag, extra))
            self.absorb(out, nets)
        return out

    def send(self, side, i, chan, mode, ln):
        seed = self.next_seed; self.next_seed += 1
        lst = self.sent.setdefault((side, i), [])
        p = Packet(side, len(lst), chan, mode, ln, seed, self.tick, self.time)
        pay = "-" if ln == 0 else "@%d:%d" % (seed, ln)
        o = self.op("%ssend %d %s %d %d" % (side, i, pay, chan, mode))
        if o == "ok":
            lst.append(p)
        return o

    def call(self, what, i):
        self.calls.append((self.time, what, i))
        return self.op("%s %d" % (what, i))

    def run(self, ticks, dt_ns, nets, actions=None):
        for _ in range(ticks):
            if self.dead:
                break
            self.tick += 1
            self.set_time(self.time + (dt_ns(self) if callable(dt_ns) else dt_ns))
            if actions:
                actions(self)
            self.sstep(nets)
            for i in sorted(self.clients):
                self.cstep(i, nets)

    def close(self):
        if self.own:
            self.it.close()
