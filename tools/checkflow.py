"""The common flow of every check (DESIGN.md section 5)."""
import json, os, sys, time
import vlib
from vlib import Report, SplitMix

MAX_REPORTED = 12


class Interactive:
    """Line-at-a-time access to the harness (used by generators that need the implementation's
    own outputs, e.g. the bytes of an encoded frame, to build the next operation). A hang or
    abort of the implementation kills the process; the next operation starts a fresh one."""
    def __init__(self, mode, exe=None):
        self.mode = mode; self.exe = exe or vlib.UH
        self.p = None
        self.start()
    def start(self):
        import subprocess
        self.p = subprocess.Popen([self.exe, self.mode, "--interactive"], stdin=subprocess.PIPE, stdout=subprocess.PIPE,
                                  stderr=subprocess.DEVNULL, env=vlib.ENV, text=True, bufsize=1)
    def op(self, line, timeout=30):
        import select
        if self.p is None or self.p.poll() is not None:
            self.start()
        try:
            self.p.stdin.write(line + "\n"); self.p.stdin.flush()
        except (BrokenPipeError, OSError):
            self.p.kill(); self.p = None
            return "abort"
        r, _, _ = select.select([self.p.stdout], [], [], timeout)
        if not r:
            self.p.kill(); self.p.wait(); self.p = None
            return "hang"
        out = self.p.stdout.readline()
        if out == "":
            self.p.wait(); self.p = None
            return "abort"
        return out.rstrip("\n")
    def close(self):
        if self.p is None:
            return
        try:
            self.p.stdin.close(); self.p.wait(timeout=5)
        except Exception:
            self.p.kill()


def run_check(mod, tier, seed):
    """mod: property module (tools/props/cXX.py)."""
    prop = mod.PROP
    rep = Report(prop, tier, seed)
    rng = SplitMix(seed ^ int.from_bytes(prop.encode(), "little"))
    known = vlib.load_known_findings()
    broken = []          # (what, detail) — proof obligations / tie elements that no longer check
    cov = rep.coverage
    cov["checker_cmd"] = "cd /verif/lean && lake build %s && lake env lean Uflow/Audit/%s.lean" % (" ".join(mod.LAKE_TARGETS), prop)
    cov["trusted_base"] = list(mod.TRUSTED_BASE)
    rep.assumptions = list(getattr(mod, "ASSUMPTIONS", []))

    # 1. translator
    ok, msg = vlib.regenerate()
    cov["translator"] = "ok" if ok else msg
    if not ok:
        broken.append(("translator", msg))

    # 2. proofs
    model_ok = False
    if ok:
        forb = vlib.grep_forbidden(allow_native_in=getattr(mod, "NATIVE_FILES", ()))
        if forb:
            broken.append(("forbidden-construct", "; ".join(forb[:5])))
        bok, out, dt = vlib.lake_build(mod.LAKE_TARGETS)
        cov["proof_build_s"] = round(dt, 1)
        thms, examples, lemmas = vlib.count_theorems(prop, getattr(mod, "PROPS_FILES", None))
        cov["property_theorems"] = thms
        cov["obligations"] = len(thms) + lemmas + examples
        if bok:
            aok, per, problems = vlib.audit_axioms(prop, native_ok=getattr(mod, "NATIVE_OK", ()), files=getattr(mod, "PROPS_FILES", None))
            cov["axioms"] = per
            if not aok:
                broken.append(("axiom-audit", "; ".join(problems[:5])))
            missing = [t for t in thms if not any(k == t or k.endswith("." + t) for k in per)]
            if missing:
                broken.append(("axiom-audit", "theorems not audited: " + ", ".join(missing)))
            cov["discharged"] = cov["obligations"] if aok and not missing else 0
            model_ok = True
            if tier == "thorough" and getattr(mod, "LEANCHECKER", True):
                with vlib.Lock("lake"):
                    rc, o, dt2 = vlib.run(["lake", "env", "leanchecker"] + ["Uflow.Props." + f for f in getattr(mod, "PROPS_FILES", [prop])], cwd=vlib.LEAN, timeout=3600)
                cov["leanchecker"] = "ok (%.0fs)" % dt2 if rc == 0 else "FAILED: " + o[-300:]
                if rc != 0:
                    broken.append(("leanchecker", o[-300:]))
        else:
            errs = vlib.failing_decls(out)
            names = []
            for e in errs:
                d = vlib.decl_at(e["file"], e["line"])
                names.append("%s:%d %s — %s" % (e["file"], e["line"], d or "?", e["msg"]))
            cov["discharged"] = 0
            broken.append(("proof", "; ".join(names[:6]) or out[-500:]))
            # the driver may still be usable if only a Props/Lemmas module failed
            dok, _, _ = vlib.lake_build(["uflow_driver"])
            model_ok = dok

    # 3. harness
    hok, hout, hdt = vlib.build_harness()
    cov["harness_build_s"] = round(hdt, 1)
    if not hok:
        broken.append(("harness-build", hout[-600:]))

    # 4/5. correspondence + implementation-side oracles
    total_cases = 0; total_ops = 0; nontrivial = set(); dist = {}
    samples = []; oracle_fail = []; disagreements = []
    if hok:
        ctx = {"tier": tier, "seed": seed, "model_ok": model_ok}
        for stream in mod.streams(rng, tier, ctx):
            name, mode, cases = stream["name"], stream["mode"], stream["cases"]
            exe = vlib.UH
            if stream.get("profile") == "dbgassert":
                dok, dout, _ = vlib.build_harness("dbgassert")
                if not dok:
                    broken.append(("harness-build-dbgassert", dout[-400:])); continue
                exe = vlib.UH_DBG
            if model_ok and not stream.get("impl_only"):
                impl, model, dis = vlib.correspond(mode, cases, exe=exe, per_case_timeout=stream.get("case_timeout", 20))
            else:
                impl = {}
                for i in range(0, len(cases), 64):
                    impl.update(vlib.run_cases(exe, mode, cases[i:i + 64], per_case_timeout=stream.get("case_timeout", 20)))
                dis = []
            total_cases += len(cases)
            d = dist.setdefault(name, {"cases": 0, "ops": 0, "by_op": {}, "outputs": {}})
            for cid, ops in cases:
                d["cases"] += 1; d["ops"] += len(ops); total_ops += len(ops)
                outs = impl.get(cid, [])
                for op, o in zip(ops, outs):
                    k = op.split(" ", 1)[0]
                    d["by_op"][k] = d["by_op"].get(k, 0) + 1
                    ok_ = mod.classify(op, o) if hasattr(mod, "classify") else o.split(" ", 1)[0][:12]
                    d["outputs"][ok_] = d["outputs"].get(ok_, 0) + 1
                sig = mod.signature(ops, outs) if hasattr(mod, "signature") else None
                if sig is not None:
                    nontrivial.add((name, sig))
                for f in mod.oracle(stream, cid, ops, outs):
                    oracle_fail.append((name, mode, cid, ops, outs, f))
            if hasattr(mod, "stream_oracle"):
                for (cid, f) in mod.stream_oracle(stream, impl):
                    oracle_fail.append((name, mode, cid, dict(cases)[cid], impl.get(cid, []), f))
            if len(samples) < 6 and cases:
                cid, ops = cases[0]
                samples.append({"stream": name, "mode": mode, "ops": [o[:300] for o in ops[:8]],
                                "impl_out": [o[:300] for o in impl.get(cid, [])[:8]]})
            for (cid, idx, op, x, y) in dis:
                disagreements.append((name, mode, cid, idx, op, x, y, dict(cases)[cid]))
    cov["evaluations"] = total_ops
    cov["cases"] = total_cases
    cov["distinct_nontrivial"] = len(nontrivial)
    cov["rule"] = mod.RULE
    cov["samples"] = samples
    cov["distribution"] = dist
    cov["traces_validated_against_impl"] = total_cases
    cov["model_disagreements"] = len(disagreements)
    cov["impl_oracle_failures"] = len(oracle_fail)
    cov["partial"] = getattr(mod, "PARTIAL", {})

    # implementation-side oracle failures: concrete violations
    reported = 0
    seen_sigs = set()
    for (name, mode, cid, ops, outs, f) in oracle_fail:
        sig = dict(f.get("signature", {})); sig.setdefault("oracle", f.get("oracle"))
        key = json.dumps(sig, sort_keys=True)
        if key in seen_sigs:
            continue
        seen_sigs.add(key)
        kf = [e for e in known if vlib.finding_matches(e, prop, sig)]
        if kf:
            rep.known("%s (%s)" % (kf[0].get("id", "?"), kf[0].get("what", "")[:120]))
            continue
        if reported < MAX_REPORTED:
            path = vlib.write_replay(prop, "%s_%s" % (name, vlib.script_hash(ops)), {
                "property": prop, "kind": "impl-oracle", "oracle": f.get("oracle"), "detail": f.get("detail"),
                "mode": mode, "ops": ops, "impl_out": outs, "signature": sig,
                "replay_cmd": "printf '%%s\\n' <ops> | %s %s" % (vlib.UH, mode)})
            rep.violation(path)
            reported += 1

    # model disagreements: broken correspondence
    if disagreements:
        (name, mode, cid, idx, op, x, y, ops) = disagreements[0]
        broken.append(("correspondence", "stream %s case %s op#%d `%s`: impl=`%s` model=`%s` (%d disagreeing cases)"
                       % (name, cid, idx, op[:120], x[:120], y[:120], len(disagreements))))

    # broken proof / tie with no concrete violation yet: search for a failing input
    if broken and not rep.violations:
        found = []
        if hok and hasattr(mod, "directed_search"):
            found = mod.directed_search(broken, rng.fork(), tier, disagreements)
        for f in found[:MAX_REPORTED]:
            sig = dict(f.get("signature", {}))
            kf = [e for e in known if vlib.finding_matches(e, prop, sig)]
            if kf:
                rep.known("%s (%s)" % (kf[0].get("id", "?"), kf[0].get("what", "")[:120]))
                continue
            path = vlib.write_replay(prop, "search_%s" % vlib.script_hash(f.get("ops", [])), dict(f, property=prop, kind="directed-search", broken=broken))
            rep.violation(path)
        if not rep.violations:
            path = vlib.write_replay(prop, "unproved", {
                "property": prop, "kind": "no-failing-input-found",
                "no_longer_checks": [{"what": w, "detail": d} for w, d in broken],
                "first_disagreement": None if not disagreements else {
                    "stream": disagreements[0][0], "mode": disagreements[0][1], "op_index": disagreements[0][3],
                    "op": disagreements[0][4], "impl": disagreements[0][5], "model": disagreements[0][6],
                    "ops": disagreements[0][7]}})
            rep.violation(path, no_input=True)
    cov["broken"] = [{"what": w, "detail": d[:500]} for w, d in broken]
    return rep.finish()
