#!/bin/bash
# confirm_seed.sh <id> <worktree> <src-file-for-demo | tests/file.rs> <test-filter> [lib|test:<name>]
# Confirms a seeded change in its scratch worktree: (1) existing suite with the change, (2) demo
# fails with the change, (3) demo passes without it. Copies patch.diff/DEMO.rs/META.md and the log
# to /verif/seeded/<id>/.
set -u
ID=$1; WT=$2; DEMOFILE=$3; FILTER=$4; KIND=${5:-lib}
OUT=/verif/seeded/$ID; mkdir -p $OUT
LOG=$OUT/confirm.log; : > $LOG
cd $WT || exit 2
export CARGO_TARGET_DIR=$WT/target
git checkout -q -- . ; git clean -qfd src tests 2>/dev/null
git apply --check $WT/patch.diff || { echo "patch does not apply" | tee -a $LOG; exit 2; }
run() { unshare -n bash -c "ip link set lo up; $1" ; }
insert_demo() {
  if [[ $DEMOFILE == tests/* ]]; then cp $WT/DEMO.rs $WT/$DEMOFILE; else
  python3 - "$WT/$DEMOFILE" "$WT/DEMO.rs" "${APPEND:-0}" <<'PY'
import sys
src=open(sys.argv[1]).read(); demo=open(sys.argv[2]).read()
if sys.argv[3] == "1":
    open(sys.argv[1],'w').write(src+"\n"+demo+"\n")
else:
    i=src.rstrip().rfind('}')
    open(sys.argv[1],'w').write(src[:i]+"\n"+demo+"\n}\n")
PY
  fi
}
demo_cmd() { if [[ $KIND == lib ]]; then echo "cargo test --offline --lib $FILTER"; else echo "cargo test --offline --test ${KIND#test:} $FILTER"; fi; }
echo "== 1. existing suite WITH the change" | tee -a $LOG
git apply $WT/patch.diff
run "cargo test --offline --no-fail-fast 2>&1" > $OUT/suite_with.log
grep -E "^test result|FAILED|failed" $OUT/suite_with.log | sort | uniq -c | tee -a $LOG
echo "== 2. demo WITH the change (must fail)" | tee -a $LOG
insert_demo
run "$(demo_cmd) 2>&1" > $OUT/demo_with.log; grep -E "^test |test result" $OUT/demo_with.log | tee -a $LOG
echo "== 3. demo WITHOUT the change (must pass)" | tee -a $LOG
git apply -R $WT/patch.diff
run "$(demo_cmd) 2>&1" > $OUT/demo_without.log; grep -E "^test |test result" $OUT/demo_without.log | tee -a $LOG
git checkout -q -- . ; git clean -qfd src tests 2>/dev/null
cp $WT/patch.diff $WT/DEMO.rs $OUT/ ; cp $WT/META.md $OUT/META.agent.md 2>/dev/null
