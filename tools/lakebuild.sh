#!/bin/bash
# lakebuild.sh <targets...> : `lake build` under the same file lock the checks use (so that it can run next to a check)
cd /verif && python3 - "$@" <<'PY'
import sys, subprocess
sys.path.insert(0, "/verif/tools")
import vlib
with vlib.Lock("lake"):
    sys.exit(subprocess.run(["lake", "build"] + sys.argv[1:], cwd=vlib.LEAN).returncode)
PY
