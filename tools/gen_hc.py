"""Scenario generator for mode `hc`: two (or more) real HalfConnections joined by a simulated
network. The generator runs with the implementation in the loop (it needs to know how many frames
each flush produced in order to schedule their delivery), the resulting script is closed and is
replayed unchanged on the Lean model."""
import vlib
from checkflow import Interactive

F = 1448
MODES = {"ts": 0, "unrel": 1, "pers": 2, "rel": 3}

def gen_payload(seed, n):
    x = seed & 0xFFFFFFFFFFFFFFFF; out = bytearray()
    for _ in range(n):
        x = (x * 6364136223846793005 + 1442695040888963407) & 0xFFFFFFFFFFFFFFFF
        out.append((x >> 33) & 0xFF)
    return bytes(out)

def fnv(b):
    h = 0xcbf29ce484222325
    for x in b:
        h ^= x
        h = (h * 0x100000001b3) & 0xFFFFFFFFFFFFFFFF
    return h

def digest(b):
    return "%d:%016x" % (len(b), fnv(b))

class Packet:
    __slots__ = ("ep", "idx", "chan", "mode", "len", "seed", "digest", "tick", "time", "frag_fnv")
    def __init__(self, ep, idx, chan, mode, ln, seed, tick, time, digest_text=None):
        self.ep = ep; self.idx = idx; self.chan = chan; self.mode = mode; self.len = ln; self.seed = seed
        if digest_text is not None:            # huge payload: digest supplied by the harness helper, no per-fragment hashes
            self.digest = digest_text; self.tick = tick; self.time = time; self.frag_fnv = []
            return
        data = gen_payload(seed, ln)
        self.digest = digest(data); self.tick = tick; self.time = time
        n = max(1, (ln + F - 1) // F)
        self.frag_fnv = ["%016x" % fnv(data[i * F:(i + 1) * F]) for i in range(n)]

def parse_frames(out):
    """`flush` output -> list of dict(len, fnv, kind, ...)."""
    toks = out.split(" ")
    frames = []
    for t in toks[1:]:
        ln, fv, body = t.split(":", 2)
        parts = body.split(",")
        f = {"len": int(ln), "fnv": fv, "kind": parts[0]}
        if parts[0] == "D":
            f["id"] = int(parts[1]); f["nonce"] = int(parts[2]); f["dgs"] = []
            for d in parts[3:]:
                x = d.split(".")
                f["dgs"].append({"seq": int(x[0]), "frag": int(x[1]), "last": int(x[2]), "chan": int(x[3]), "wpl": int(x[4]),
                                 "cpl": int(x[5]), "dlen": int(x[6]), "dfnv": x[7]})
        elif parts[0] == "A":
            f["fbase"] = int(parts[1]); f["pbase"] = int(parts[2])
            f["groups"] = [tuple(int(v) for v in g.split(".")) for g in parts[3:]]
        elif parts[0] == "S":
            f["nf"] = None if parts[1] == "-" else int(parts[1]); f["np"] = None if parts[2] == "-" else int(parts[2])
        frames.append(f)
    return frames

def parse_probe(out):
    d = {}
    for tok in out.replace("|", " ").split():
        if "=" in tok:
            k, v = tok.split("=", 1); d[k] = v.split(",")
    return d

class Net:
    """Per-direction network behaviour."""
    def __init__(self, loss=0, dup=0, jitter=0, flip=0, latency=0, reorder=0):
        self.loss = loss; self.dup = dup; self.jitter = jitter; self.flip = flip; self.latency = latency; self.reorder = reorder

class Sim:
    def __init__(self, rng, cfg, inter=None):
        self.r = rng
        self.it = inter or Interactive("hc")
        self.own = inter is None
        self.ops = []; self.outs = []
        self.time = 0; self.tick = 0
        self.cfg = cfg
        self.eps = ["A", "B"]
        self.sent = {"A": [], "B": []}          # Packet objects in submission order
        self.delivered = {"A": [], "B": []}     # (tick, digest) in delivery order
        self.frames = {"A": [], "B": []}        # emitted frames (dicts, plus tick/time)
        self.inflight = []                      # (due_time, order, src, idx, dst, flips)
        self.arrived = set()                    # (src, idx) of frames handed to the peer unmodified
        self.order = 0
        self.dead = False
        self.next_seed = 1 + (rng.next() & 0xFFFFFF) * 4096
        self.gets = {"A": [], "B": []}
        self.probes = {"A": [], "B": []}
        a = cfg
        def new(ep, txfb, rxfb, txpb, rxpb, bw, txalloc, rxalloc):
            ka = "-" if a.get("keepalive") is None else str(a["keepalive"])
            self.op("%s new %d %d %d %d %d %d %d %d %d %d %d %s" % (ep, txfb, rxfb, a["fw"], a["fw"], txpb, rxpb, a["pw"], a["pw"], bw, txalloc, rxalloc, ka))
        self.op("t 0")
        new("A", a["fbA"], a["fbB"], a["pbA"], a["pbB"], min(a["bwA"], a.get("rbwB", a["bwA"])), a["allocB"], a["allocA"])
        new("B", a["fbB"], a["fbA"], a["pbB"], a["pbA"], min(a["bwB"], a.get("rbwA", a["bwB"])), a["allocA"], a["allocB"])

    def op(self, line):
        if self.dead:
            return "dead"
        out = self.it.op(line, timeout=20)
        self.ops.append(line); self.outs.append(out)
        if out.startswith("trap") or out in ("hang", "abort"):
            self.dead = True
        return out

    def other(self, ep):
        return "B" if ep == "A" else "A"

    def set_time(self, t):
        self.time = t
        self.op("t %d" % t)

    def send(self, ep, chan, mode, ln, huge=False):
        seed = self.next_seed; self.next_seed += 1
        dg = self.op("digest @%d:%d" % (seed, ln)) if huge else None
        p = Packet(ep, len(self.sent[ep]), chan, mode, ln, seed, self.tick, self.time, digest_text=dg)
        self.sent[ep].append(p)
        pay = "-" if ln == 0 else "@%d:%d" % (seed, ln)
        self.op("%s send %s %d %d" % (ep, pay, chan, mode))
        return p

    def flush(self, ep, net):
        out = self.op("%s flush" % ep)
        if self.dead or not out or not out[0].isdigit():
            return []
        frames = parse_frames(out)
        base = len(self.frames[ep])
        for i, f in enumerate(frames):
            f["tick"] = self.tick; f["time"] = self.time; f["idx"] = base + i
            self.frames[ep].append(f)
            self.route(ep, base + i, f, net)
        return frames

    def route(self, ep, idx, f, net):
        r = self.r
        self.latency = max(getattr(self, "latency", 0), net.latency)
        dst = self.other(ep)
        fate_fn = getattr(self, "fate_fn", None)
        if fate_fn is not None:
            delays = fate_fn(self, ep, idx, f)          # None: leave it to `net`; []: lost; [d1, ...]: copies with these delays
            if delays is not None:
                f["fate"] = "drop" if not delays else ("ok" if len(delays) == 1 else "dup%d" % len(delays))
                for dl in delays:
                    self.order += 1
                    self.inflight.append((self.time + dl, self.order, ep, idx, dst, None))
                return
        if net.loss and r.below(1000) < net.loss:
            f["fate"] = "drop"; return
        copies = 1
        if net.dup and r.below(1000) < net.dup:
            copies += 1 + r.below(2)
        f["fate"] = "ok" if copies == 1 else "dup%d" % copies
        for c in range(copies):
            delay = net.latency + (r.below(net.jitter + 1) if net.jitter else 0)
            if net.reorder and r.below(1000) < net.reorder:
                delay += net.latency + r.below(4 * (net.jitter + 1) + 1)
            flips = None
            if net.flip and r.below(1000) < net.flip:
                k = r.range(1, 4)
                flips = sorted(set(r.below(8 * f["len"]) for _ in range(k)))
                f["fate"] += "+flip"
            self.order += 1
            self.inflight.append((self.time + delay, self.order, ep, idx, dst, flips))

    def deliver_due(self, dst):
        due = sorted([x for x in self.inflight if x[4] == dst and x[0] <= self.time])
        self.inflight = [x for x in self.inflight if not (x[4] == dst and x[0] <= self.time)]
        for (_, _, src, idx, d, flips) in due:
            self.op("fwd %s %d %s%s" % (src, idx, d, "" if not flips else " " + ",".join(map(str, flips))))
            if not flips:
                self.arrived.add((src, idx))

    def recv(self, ep):
        out = self.op("%s recv" % ep)
        if self.dead or not out or not out[0].isdigit():
            return []
        toks = out.split(" ")[1:]
        for d in toks:
            self.delivered[ep].append((self.tick, d))
        return toks

    def endpoint_tick(self, ep, net_out):
        """The order of Client::step / Server::step: flush, handle frames, step, receive."""
        self.flush(ep, net_out)
        self.deliver_due(ep)
        self.op("%s step" % ep)
        self.recv(ep)

    def get(self, ep):
        out = self.op("%s get" % ep)
        if out.startswith("sbs="):
            d = dict(t.split("=") for t in out.split(" "))
            self.gets[ep].append((self.tick, int(d["sbs"]), int(d["pending"]), d["rtt"]))
            return d
        return None

    def probe(self, ep):
        out = self.op("%s probe" % ep)
        if out.startswith("fa="):
            p = parse_probe(out); p["_tick"] = self.tick; p["_time"] = self.time
            self.probes[ep].append(p)
            return p
        return None

    def run(self, ticks, dt_ns, netAB, netBA, traffic=None, probe_every=0, extra_flush=0):
        """traffic(sim, ep) is called before each endpoint tick to submit packets."""
        for _ in range(ticks):
            if self.dead:
                break
            self.tick += 1
            self.set_time(self.time + dt_ns if not callable(dt_ns) else self.time + dt_ns(self))
            for ep in self.eps:
                if traffic:
                    traffic(self, ep)
                self.endpoint_tick(ep, netAB if ep == "A" else netBA)
                for _ in range(extra_flush):
                    self.flush(ep, netAB if ep == "A" else netBA)
            if probe_every and self.tick % probe_every == 0:
                for ep in self.eps:
                    self.probe(ep); self.get(ep)

    def quiescent(self):
        ga = self.get("A"); gb = self.get("B")
        if ga is None or gb is None:
            return False
        return ga["pending"] == "0" and gb["pending"] == "0" and not self.inflight

    def drain(self, max_ticks=1500, dt_ns=20_000_000, latency=None, slow_dt_ns=None, budget_s=20000, smart=False):
        """Fair phase: loss-free FIFO network (same latency as before: a change would reorder frames in flight)
        until nothing is pending. Both applications keep calling step() every `dt_ns` while anything is in
        flight; when nothing moved for a burst of steps the clock jumps ahead (TFRC may have backed off to its
        23 B/s floor: one frame per 64 s) and fine stepping resumes, so acks always come back within a few steps."""
        lat = getattr(self, "latency", 0) if latency is None else latency
        net = Net(latency=lat)
        fine = max(4, int(2 * lat // dt_ns) + 4)
        jump = 1_000_000_000
        t_end = self.time + budget_s * 10**9
        used = 0
        while smart and used < max_ticks and self.time < t_end:
            # event-driven: a few steps at the given cadence, then straight to the next arrival / the instant the
            # credit turns non-negative / (nothing else to wait for) a growing pause
            if self.dead:
                return False
            before = sum(len(v) for v in self.frames.values())
            self.run(3, dt_ns, net, net); used += 3
            moved = sum(len(v) for v in self.frames.values()) - before
            if self.quiescent():
                return True
            if moved:
                jump = 1_000_000_000
                continue
            if self.inflight:
                due = min(x[0] for x in self.inflight)
                if due > self.time + dt_ns:
                    self.run(1, due - self.time, net, net); used += 1
                continue
            needs = []
            for ep in self.eps:
                pr = self.probe(ep)
                if pr is not None and int(pr["fa"][0]) < 0 and int(pr["rate"][0]) > 0:
                    needs.append(-int(pr["fa"][0]) * 10**9 // int(pr["rate"][0]) + 1_000_000)
            if needs:
                # the earliest instant at which either side regains credit (an ack held back by the peer's own
                # limiter must not wait for the sender's next data frame)
                self.run(1, max(dt_ns, min(min(needs), 64_000_000_000)), net, net); used += 1
            else:
                self.run(1, jump, net, net); used += 1
                jump = min(jump * 2, 64_000_000_000)
        if smart:
            return False
        while used < max_ticks and self.time < t_end:
            if self.dead:
                return False
            before = sum(len(v) for v in self.frames.values())
            self.run(fine, dt_ns, net, net); used += fine
            moved = sum(len(v) for v in self.frames.values()) - before
            if self.quiescent():
                return True
            if moved == 0 and not self.inflight:
                j = jump
                if smart:
                    # jump straight to the instant the sender's credit turns non-negative again
                    need = 0
                    for ep in self.eps:
                        pr = self.probe(ep)
                        if pr is not None and int(pr["fa"][0]) < 0 and int(pr["rate"][0]) > 0:
                            need = max(need, -int(pr["fa"][0]) * 10**9 // int(pr["rate"][0]))
                    j = max(jump, min(need, 64_000_000_000))
                self.run(1, j, net, net); used += 1
                jump = min(jump * 2, 64_000_000_000)
            else:
                jump = 1_000_000_000
        return False

    def close(self):
        if self.own:
            self.it.close()


def pick_cfg(r, small=True):
    """Window sizes, base ids (incl. next to wrap-around), limits."""
    fw = r.weighted([(4, 2), (16, 3), (64, 3), (4096, 2)]) if small else 4096
    pw = r.weighted([(4, 2), (16, 3), (64, 3), (4096, 2)]) if small else 4096
    def fb():
        return r.weighted([(0, 2), (2**32 - 1, 1), (2**32 - r.range(1, 2 * fw), 3), (r.next() & 0xFFFFFFFF, 3)])
    def pb():
        return r.weighted([(0, 2), (2**20 - 1, 1), (2**20 - r.range(1, 2 * pw), 3), (r.below(2**20), 3)])
    bw = r.weighted([(2_000_000, 3), (200_000, 2), (20_000_000, 2), (50_000, 1)])
    alloc = r.weighted([(1_000_000, 3), (100_000, 2), (20_000, 1)])
    return {"fw": fw, "pw": pw, "fbA": fb(), "fbB": fb(), "pbA": pb(), "pbB": pb(), "bwA": bw, "bwB": bw,
            "allocA": alloc, "allocB": alloc, "keepalive": r.pick([None, 5000, 1000])}

def pick_len(r, max_len):
    ln = r.weighted([(3, 1), (8, 2), (63, 1), (64, 1), (100, 3), (255, 1), (256, 1), (F - 1, 1), (F, 2), (F + 1, 2), (2 * F - 1, 1), (2 * F, 1),
                     (2 * F + 1, 1), (3 * F + 5, 1), (r.range(3, 6000), 3)])
    return max(3, min(ln, max_len))

def random_traffic(r, rate_pm=400, burst=3, modes=(0, 1, 2, 3), chans=4, max_len=6000, until_tick=10**9, eps=("A", "B")):
    def traffic(sim, ep):
        if ep not in eps or sim.tick > until_tick:
            return
        if r.below(1000) < rate_pm:
            for _ in range(r.range(1, burst)):
                ch = r.below(chans) if chans <= 8 else r.pick([0, 1, 31, 32, 63, r.below(64)])
                sim.send(ep, ch, r.pick(list(modes)), pick_len(r, max_len))
    return traffic
