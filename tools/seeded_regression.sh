#!/bin/bash
# Runs every seeded change under /verif/seeded against the check of its property (two seeds) and writes
# /verif/seeded/RESULTS.txt. /repo is restored after each one; nothing is committed there.
cd /verif
OUT=/verif/seeded/RESULTS.txt
: > $OUT
for d in /verif/seeded/*/; do
  id=$(basename $d); prop=${id%%-*}
  echo "######## $id vs $prop" >> $OUT
  tools/seedtest.sh $d/patch.diff $prop ${SEEDS:-1 2} 2>&1 | cut -c1-260 >> $OUT
done
echo "######## unchanged tree" >> $OUT
git -C /repo status --short >> $OUT
echo DONE >> $OUT
