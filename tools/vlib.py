"""Shared machinery of the checks: regenerate, build proofs, audit axioms, build the harness,
run correspondence batches, write evidence, report violations / known findings."""
import fcntl, hashlib, json, os, re, subprocess, sys, time

ROOT = os.path.dirname(os.path.dirname(os.path.abspath(__file__)))
LEAN = os.path.join(ROOT, "lean")
HARNESS = os.path.join(ROOT, "harness")
WORK = os.path.join(ROOT, "work")
REPLAYS = os.path.join(ROOT, "replays")
EVIDENCE = os.path.join(ROOT, "evidence")
CORPUS = os.path.join(ROOT, "corpus")
UH = os.path.join(HARNESS, "target", "release", "uh")
UH_DBG = os.path.join(HARNESS, "target", "dbgassert", "uh")
DRIVER = os.path.join(LEAN, ".lake", "build", "bin", "uflow_driver")

ALLOWED_AXIOMS = {"propext", "Classical.choice", "Quot.sound"}
NATIVE_AXIOMS = {"Lean.ofReduceBool", "Lean.trustCompiler"}

ENV = dict(os.environ)
ENV["CARGO_NET_OFFLINE"] = "true"

for d in (WORK, REPLAYS, EVIDENCE):
    os.makedirs(d, exist_ok=True)


class SplitMix:
    """One PRNG stream; every random choice of a generator comes from here."""
    def __init__(self, seed):
        self.s = seed & 0xFFFFFFFFFFFFFFFF
    def next(self):
        self.s = (self.s + 0x9E3779B97F4A7C15) & 0xFFFFFFFFFFFFFFFF
        z = self.s
        z = ((z ^ (z >> 30)) * 0xBF58476D1CE4E5B9) & 0xFFFFFFFFFFFFFFFF
        z = ((z ^ (z >> 27)) * 0x94D049BB133111EB) & 0xFFFFFFFFFFFFFFFF
        return z ^ (z >> 31)
    def below(self, n):
        return self.next() % n if n > 0 else 0
    def range(self, a, b):
        """inclusive"""
        return a + self.below(b - a + 1)
    def chance(self, num, den):
        return self.below(den) < num
    def pick(self, xs):
        return xs[self.below(len(xs))]
    def weighted(self, pairs):
        tot = sum(w for _, w in pairs)
        r = self.below(tot)
        for x, w in pairs:
            if r < w:
                return x
            r -= w
        return pairs[-1][0]
    def bytes(self, n):
        out = bytearray()
        while len(out) < n:
            out += self.next().to_bytes(8, "little")
        return bytes(out[:n])
    def fork(self):
        return SplitMix(self.next())


class Lock:
    def __init__(self, name="build"):
        self.path = os.path.join(WORK, "." + name + ".lock")
    def __enter__(self):
        self.f = open(self.path, "w")
        fcntl.flock(self.f, fcntl.LOCK_EX)
        return self
    def __exit__(self, *a):
        fcntl.flock(self.f, fcntl.LOCK_UN)
        self.f.close()


def run(cmd, cwd=None, timeout=None, input=None):
    t0 = time.time()
    p = subprocess.run(cmd, cwd=cwd, env=ENV, stdout=subprocess.PIPE, stderr=subprocess.STDOUT,
                       timeout=timeout, input=input, text=True)
    return p.returncode, p.stdout, time.time() - t0


# ---------------------------------------------------------------------------------------------
# step 1: translator

def regenerate():
    """Re-extract constants/tables from /repo. Returns (ok, message)."""
    rc, out, _ = run([sys.executable, os.path.join(ROOT, "tools", "extract_consts.py"), "--json"])
    if rc != 0:
        return False, out.strip()
    return True, out.strip()


# ---------------------------------------------------------------------------------------------
# step 2: proofs

def strip_lean_comments(src):
    # nested block comments
    out = []; i = 0; depth = 0; n = len(src)
    while i < n:
        if src.startswith("/-", i):
            depth += 1; i += 2; continue
        if depth > 0 and src.startswith("-/", i):
            depth -= 1; i += 2; continue
        if depth == 0 and src.startswith("--", i):
            j = src.find("\n", i)
            i = n if j < 0 else j
            continue
        if depth == 0:
            out.append(src[i])
        i += 1
    return "".join(out)

FORBIDDEN = re.compile(r"\b(sorry|admit|native_decide|bv_decide|implemented_by|unsafe)\b|^\s*axiom\s|maxHeartbeats\s+0\b", re.M)

# the one designated native_decide (weight-4 CRC enumeration, used by C16_reject_flips only); whether a
# theorem depends on it is decided per theorem by the `#print axioms` audit, not by this grep
NATIVE_ALLOWED_FILES = ("Uflow/Lemmas/CrcHD4.lean",)

def grep_forbidden(allow_native_in=()):
    """Scan all Lean sources (comments stripped) for forbidden constructs."""
    hits = []
    for base, _, files in os.walk(os.path.join(LEAN, "Uflow")):
        for fn in files:
            if not fn.endswith(".lean"):
                continue
            path = os.path.join(base, fn)
            rel = os.path.relpath(path, LEAN)
            src = strip_lean_comments(open(path).read())
            for m in FORBIDDEN.finditer(src):
                tok = m.group(0).strip()
                if tok == "native_decide" and (rel in allow_native_in or rel in NATIVE_ALLOWED_FILES):
                    continue
                hits.append("%s: %s" % (rel, tok))
    return hits

def lake_build(targets):
    with Lock("lake"):
        rc, out, dt = run(["lake", "build"] + list(targets), cwd=LEAN, timeout=3600)
    return rc == 0, out, dt

def failing_decls(build_output):
    """Names of modules/lines that failed in a lake build output."""
    errs = []
    for m in re.finditer(r"error: (Uflow/[^:]+):(\d+):(\d+): (.*)", build_output):
        errs.append({"file": m.group(1), "line": int(m.group(2)), "msg": m.group(4)[:200]})
    return errs

def decl_at(file_rel, line):
    """Best effort: the theorem/def enclosing a source line."""
    try:
        lines = open(os.path.join(LEAN, file_rel)).read().split("\n")
    except OSError:
        return None
    for i in range(min(line, len(lines)) - 1, -1, -1):
        m = re.match(r"\s*(?:private\s+|protected\s+)?(theorem|lemma|def|example|instance|abbrev)\s+([^\s:(\[{]+)?", lines[i])
        if m:
            return m.group(2) or ("example@%d" % (i + 1))
    return None

def audit_axioms(prop, native_ok=(), files=None):
    """Runs Uflow/Audit/<file>.lean for each file and parses `#print axioms`. Returns (ok, per_theorem, problems)."""
    out = ""; rc = 0
    for fn in (files or [prop]):
        with Lock("lake"):
            rc1, out1, _ = run(["lake", "env", "lean", os.path.join("Uflow", "Audit", fn + ".lean")], cwd=LEAN, timeout=1800)
        out += out1 + "\n"; rc = rc or rc1
    per = {}; problems = []
    text = out.replace("\n  ", " ").replace("\n ", " ")
    for m in re.finditer(r"'(\S+)' depends on axioms: \[([^\]]*)\]", text, flags=re.S):
        axs = [a.strip() for a in m.group(2).replace("\n", " ").split(",") if a.strip()]
        per[m.group(1)] = axs
    for m in re.finditer(r"'(\S+)' does not depend on any axioms", text):
        per[m.group(1)] = []
    if rc != 0:
        problems.append("audit module failed to elaborate: " + out[-400:])
    for thm, axs in per.items():
        short = thm.split(".")[-1]
        for a in axs:
            if a in ALLOWED_AXIOMS:
                continue
            if (a in NATIVE_AXIOMS or "._native.native_decide." in a) and short in native_ok:
                continue
            problems.append("%s depends on disallowed axiom %s" % (thm, a))
    if not per:
        problems.append("audit produced no axiom reports")
    return (not problems), per, problems

def count_theorems(prop, files=None):
    """Property theorems in Props/<file>.lean (names) and helper lemmas they rest on (count)."""
    thms = []; examples = 0; imports = []
    for fn in (files or [prop]):
        raw = open(os.path.join(LEAN, "Uflow", "Props", fn + ".lean")).read()
        src = strip_lean_comments(raw)
        thms += re.findall(r"^\s*theorem\s+([^\s:(\[{]+)", src, flags=re.M)
        examples += len(re.findall(r"^\s*example\b", src, flags=re.M))
        imports += re.findall(r"^import\s+(Uflow\.Lemmas\.\S+)", raw, flags=re.M)
    lemmas = 0
    seen = set()
    todo = list(imports)
    while todo:
        mod = todo.pop()
        if mod in seen:
            continue
        seen.add(mod)
        path = os.path.join(LEAN, mod.replace(".", "/") + ".lean")
        try:
            raw = open(path).read()
        except OSError:
            continue
        lemmas += len(re.findall(r"^\s*(?:private\s+)?theorem\s+", strip_lean_comments(raw), flags=re.M))
        todo += re.findall(r"^import\s+(Uflow\.Lemmas\.\S+)", raw, flags=re.M)
    return thms, examples, lemmas


# ---------------------------------------------------------------------------------------------
# step 3: harness

def build_harness(profile="release"):
    with Lock("cargo"):
        lock_src = "/repo/Cargo.lock"
        lock_dst = os.path.join(HARNESS, "Cargo.lock")
        if not os.path.exists(lock_dst) and os.path.exists(lock_src):
            import shutil; shutil.copy(lock_src, lock_dst)
        cmd = ["cargo", "build", "--offline", "--profile", profile]
        rc, out, dt = run(cmd, cwd=HARNESS, timeout=3600)
    return rc == 0, out, dt


# ---------------------------------------------------------------------------------------------
# step 4: correspondence

def _stream_batch(exe, mode, cases, stall_timeout):
    """Feeds the cases to one process and reads its output as it comes. Returns ({id: lines}, status, current id):
    status None = finished; 'hang' = no output for `stall_timeout` s; 'abort' = the process died."""
    import threading, queue
    text = "".join("=== %s\n%s\n" % (cid, "\n".join(ops)) for cid, ops in cases)
    p = subprocess.Popen([exe, mode, "--interactive"], stdin=subprocess.PIPE, stdout=subprocess.PIPE, stderr=subprocess.DEVNULL, env=ENV, text=True)
    q = queue.Queue()
    def feed():
        try:
            p.stdin.write(text); p.stdin.close()
        except (BrokenPipeError, OSError):
            pass
    def read():
        for ln in p.stdout:
            q.put(ln.rstrip("\n"))
        q.put(None)
    threading.Thread(target=feed, daemon=True).start()
    threading.Thread(target=read, daemon=True).start()
    res = {}; cur = None; status = None
    while True:
        try:
            ln = q.get(timeout=stall_timeout)
        except queue.Empty:
            status = "hang"; break
        if ln is None:
            break
        if ln.startswith("==="):
            cur = ln[3:].strip(); res[cur] = []
        elif cur is not None and ln != "":
            res[cur].append(ln)
    if status == "hang":
        p.kill()
    p.wait()
    if status is None and p.returncode != 0:
        status = "abort"
    return res, status, cur

def run_cases(exe, mode, cases, timeout=300, per_case_timeout=20):
    """cases: list of (id, [op lines]). Returns {id: [output lines]}; a case whose execution hangs
    or kills the process yields the outputs obtained so far plus a final `hang`/`abort` line; the
    remaining cases are continued in a fresh process."""
    out = {}
    todo = list(cases)
    while todo:
        res, status, cur = _stream_batch(exe, mode, todo, per_case_timeout)
        ids = [cid for cid, _ in todo]
        if status is None:
            out.update(res)
            break
        # everything before the offending case is complete
        k = ids.index(cur) if cur in ids else 0
        for cid in ids[:k]:
            out[cid] = res.get(cid, [])
        nops = len(todo[k][1])
        got = res.get(ids[k], [])
        out[ids[k]] = got[:nops] + ([status] if len(got) < nops or status == "abort" else [])
        todo = todo[k + 1:]
    for cid, _ in cases:
        out.setdefault(cid, ["<missing>"])
    return out

def correspond(mode, cases, exe=None, timeout=600, per_case_timeout=20, jobs=8):
    """Runs the cases on implementation and model; returns (impl_out, model_out, disagreements).
    A disagreement is (case id, op index, op line, impl line, model line)."""
    exe = exe or UH
    from concurrent.futures import ThreadPoolExecutor
    chunks = [cases[i::jobs] for i in range(jobs) if cases[i::jobs]]
    impl = {}; model = {}
    with ThreadPoolExecutor(max_workers=2 * len(chunks) or 1) as ex:
        fi = [ex.submit(run_cases, exe, mode, c, timeout, per_case_timeout) for c in chunks]
        fm = [ex.submit(run_cases, DRIVER, mode, c, timeout, per_case_timeout) for c in chunks]
        for f in fi: impl.update(f.result())
        for f in fm: model.update(f.result())
    dis = []
    for cid, ops in cases:
        a = impl.get(cid, ["<missing>"]); b = model.get(cid, ["<missing>"])
        n = max(len(a), len(b))
        for i in range(n):
            x = a[i] if i < len(a) else "<none>"
            y = b[i] if i < len(b) else "<none>"
            if x == y and x in ("hang", "abort"):
                break          # both sides end here (the killed implementation prints nothing further)
            if x != y:
                dis.append((cid, i, ops[i] if i < len(ops) else "<eof>", x, y))
                break
    return impl, model, dis

def shrink(mode, ops, still_fails, max_rounds=200):
    """Delta debugging on lines: `still_fails(ops)` -> bool."""
    ops = list(ops)
    n = 2; rounds = 0
    while len(ops) >= 2 and rounds < max_rounds:
        rounds += 1
        chunk = max(1, len(ops) // n)
        reduced = False
        for i in range(0, len(ops), chunk):
            cand = ops[:i] + ops[i + chunk:]
            if cand and still_fails(cand):
                ops = cand; n = max(n - 1, 2); reduced = True
                break
        if not reduced:
            if chunk == 1:
                break
            n = min(len(ops), n * 2)
    return ops


# ---------------------------------------------------------------------------------------------
# known findings, replays, evidence

def load_known_findings():
    try:
        return json.load(open(os.path.join(ROOT, "known_findings.json")))
    except OSError:
        return []

def finding_matches(entry, prop, signature):
    if entry.get("status") != "open" or entry.get("property") != prop:
        return False
    sig = entry.get("signature", {})
    return all(signature.get(k) == v for k, v in sig.items())

def write_replay(prop, name, payload):
    path = os.path.join(REPLAYS, "%s_%s.json" % (prop, name))
    with open(path, "w") as f:
        json.dump(payload, f, indent=1)
    return path

def script_hash(ops):
    return hashlib.sha256("\n".join(ops).encode()).hexdigest()[:16]


class Report:
    """Collects the outcome of one check run and writes evidence."""
    def __init__(self, prop, tier, seed):
        self.prop = prop; self.tier = tier; self.seed = seed
        self.t0 = time.time()
        for fn in os.listdir(REPLAYS):
            if fn.startswith(prop + "_") and fn.endswith(".json"):
                os.remove(os.path.join(REPLAYS, fn))
        self.violations = []     # (replay path, suffix)
        self.known_seen = []
        self.coverage = {}
        self.assumptions = []
        self.notes = []
    def violation(self, replay, no_input=False):
        self.violations.append((replay, no_input))
    def known(self, text):
        self.known_seen.append(text)
    def finish(self):
        ev = {
            "property_id": self.prop, "tier": self.tier, "seed": self.seed, "level": "proof",
            "coverage": self.coverage, "assumptions": self.assumptions,
            "wall_s": round(time.time() - self.t0, 2), "violations": len(self.violations),
        }
        ev["coverage"]["known_findings_seen"] = self.known_seen
        if self.notes:
            ev["coverage"]["notes"] = self.notes
        with open(os.path.join(EVIDENCE, self.prop + ".json"), "w") as f:
            json.dump(ev, f, indent=1)
        for k in self.known_seen:
            print("KNOWN-FINDING: property=%s %s" % (self.prop, k))
        for path, no_input in self.violations:
            print("VIOLATION property=%s replay=%s%s" % (self.prop, path, " no-failing-input-found" if no_input else ""))
        if self.violations:
            return 1
        print("OK property=%s tier=%s wall=%.1fs" % (self.prop, self.tier, time.time() - self.t0))
        return 0
