#!/bin/bash
# seedtest.sh <patch.diff> <prop> [seeds...] : applies a seeded change to /repo, runs ./check <prop> (quick) with the
# given seeds, reverts the change. Prints one line per run. Never commits anything in /repo.
set -u
PATCH=$1; PROP=$2; shift 2; SEEDS=${*:-"1 2 3"}
cd /verif
if ! git -C /repo diff --quiet; then echo "repo dirty, refusing"; exit 2; fi
git -C /repo apply --check "$PATCH" 2>/dev/null || { echo "PATCH-DOES-NOT-APPLY $PATCH"; exit 3; }
git -C /repo apply "$PATCH"
for sd in $SEEDS; do
  all=$(VERIF_SEED=$sd ./check $PROP --tier quick 2>&1)
  out=$(echo "$all" | grep -E "^(OK|VIOLATION)" | tr '\n' ' ')
  nk=$(echo "$all" | grep -c "^KNOWN-FINDING")
  echo "seed=$sd $PROP: ${out:0:300} [known-finding lines: $nk]"
  for f in replays/${PROP}_*.json; do [ -f "$f" ] && python3 -c "
import json,sys
r=json.load(open('$f')); print('     ', '$f'.split('/')[-1][:40], r.get('signature'), str(r.get('detail'))[:160].replace('\n',' '), [b['what'] for b in r.get('no_longer_checks',[])][:3])"; done
done
git -C /repo checkout -- .
git -C /repo status --short | head -3
