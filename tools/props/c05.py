"""C05 — ideal network: every packet delivered, global order preserved."""
import vlib
from checkflow import Interactive
from props import hc_common as H
from props import c01
from gen_hc import F, Sim, Net, pick_cfg, random_traffic, pick_len

PROP = "C05"
LAKE_TARGETS = ["Uflow.Props.C05", "Uflow.Props.C05Sys", "uflow_driver"]
PROPS_FILES = ["C05", "C05Sys"]
TRUSTED_BASE = c01.TRUSTED_BASE
ASSUMPTIONS = ["completeness ('every') rests on the same liveness argument as C02 and is checked on every generated run, not proved"]
RULE = ("a loss-free FIFO network with latencies 0..150 ms, send histories over all modes/channels/sizes incl. multi-fragment, bursts exceeding the credit and both windows, "
        "small allocation limits, cadences 0.25 ms..100 ms, both directions at once, all initial ids; oracle: the delivered sequence equals the submitted sequence with only "
        "TimeSensitive packets possibly missing. Non-trivial: >= 10 packets delivered. Distinct by (windows, limits, cadence, volume).")

def streams(rng, tier, ctx):
    n = 24 if tier == "quick" else 500
    it = Interactive("hc")
    cases = []; meta = {}
    try:
        for i in range(n):
            r = rng.fork()
            it.op("=== gen%d" % i)
            cfg = pick_cfg(r)
            if i % 3 == 0:
                cfg["allocA"] = cfg["allocB"] = r.pick([8 * 1448, 12000, 30000]); cfg["pw"] = r.pick([4, 16, 64])
            big = (i % 6 == 4)
            if big:
                # packets of more than 64 (and more than 128) fragments, cut across many flushes with acknowledgements of
                # the early fragments arriving in between
                cfg["allocA"] = cfg["allocB"] = 1_000_000; cfg["bwA"] = cfg["bwB"] = r.pick([2_000_000, 20_000_000])
            burst = (i % 8 == 7)
            if burst:
                # one Reliable packet followed, in the same tick, by a burst of small packets that crosses the encoding thresholds of
                # the parent-lead fields (window parent lead 127/128/129, channel parent lead 255/256/257) while it is unacknowledged
                cfg["pw"] = 4096; cfg["fw"] = 4096; cfg["allocA"] = cfg["allocB"] = 1_000_000; cfg["bwA"] = cfg["bwB"] = 20_000_000
            slowlink = (i % 8 == 3)
            if slowlink:
                # round-7 family (changes C05-g / C02-d): a round trip longer than the sync timeout and a frame window of a few frames;
                # a burst of single-frame Unreliable / TimeSensitive-free packets larger than the window: the packets behind the window
                # have their sequence ids but wait in the pending queue when the sync timer fires - the ideal network loses nothing,
                # so every one of them has to arrive, in order
                cfg["fw"] = r.pick([2, 2, 4]); cfg["pw"] = r.pick([64, 4096]); cfg["allocA"] = cfg["allocB"] = 1_000_000
                cfg["bwA"] = cfg["bwB"] = 20_000_000
            sim = Sim(r, cfg, inter=it)
            lat = r.pick([0, 1_000_000, 20_000_000, 150_000_000]) if not big else r.pick([0, 1_000_000, 5_000_000])
            if slowlink:
                lat = r.pick([2_500_000_000, 4_000_000_000, 6_000_000_000])      # slow start sends about one frame per second at first
                for _ in range(cfg["fw"] + r.range(1, 4)):
                    sim.send("A", r.below(2), 1, r.pick([1448, 1400, 1200]))      # Unreliable only: nothing enters the resend queue
                sim.run(int(30_000_000_000 // 50_000_000), 50_000_000, Net(latency=lat), Net(latency=lat))
            if burst:
                lat = r.pick([5_000_000, 20_000_000])
                def warm(sim, ep):
                    if ep == "A" and sim.tick < 50:
                        for _ in range(3):
                            sim.send("A", r.below(3), r.pick([1, 3]), 1000)
                sim.run(80, 5_000_000, Net(latency=lat), Net(latency=lat), warm)
                T = r.pick([127, 128, 128, 129, 255, 256, 257])
                ch = r.below(3)
                sim.send("A", ch, 3, 10)
                for k in range(T + 5):
                    sim.send("A", ch if (T < 200 or k % 2 == 0) else (ch + 1) % 3, r.pick([1, 1, 2]), r.range(3, 60))
            net = Net(latency=lat)
            dt = r.pick([250_000, 1_000_000, 5_000_000, 16_000_000, 100_000_000])
            both = r.chance(1, 2)
            lim = min(6000, cfg["allocA"])
            nbig = [0]
            def tr(sim, ep):
                if big and (ep == "A" or both) and nbig[0] < 3 and sim.tick % 7 == 1:
                    nbig[0] += 1
                    sim.send(ep, r.pick([0, 1]), r.pick([3, 2, 1]), r.pick([65 * F + 3, 70 * F, 100_000, 130 * F + 7, 200_000]))
                if (ep == "A" or both) and sim.tick < 60 and r.chance(1, 2):
                    for _ in range(r.range(1, 8)):
                        ln = r.pick([0, 1, 10, 100, 724, 1448, 1449, 1810, 2 * 1448 - 1, 3000, r.range(0, lim)])
                        sim.send(ep, r.pick([0, 1, 2, 63]), r.pick([0, 1, 2, 3]), min(ln, lim))
            sim.run(r.range(30, 90), dt, net, net, tr)
            sim.meta = {"cfg": cfg}
            H.finish(sim, drain=True, max_ticks=900)
            cid = "i%d" % i
            cases.append((cid, sim.ops)); meta[cid] = sim
    finally:
        it.close()
    return [{"name": "ideal", "mode": "hc", "cases": cases, "meta": meta, "case_timeout": 180}]

def signature(ops, outs):
    nd = sum(int(o.split(" ")[0]) for op, o in zip(ops, outs) if op.endswith(" recv") and o and o[0].isdigit())
    if nd < 10:
        return None
    return (ops[1][:60], min(nd // 10, 9))

def oracle(stream, cid, ops, outs):
    fails = H.trap_failures(ops, outs)
    sim = stream["meta"][cid]
    delivered, frames, probes, gets = H.replay_outputs(ops, outs)
    for ep in ("A", "B"):
        src = sim.other(ep)
        sent = sim.sent[src]
        got = [d for (t, d) in delivered.get(ep, [])]
        # The delivered sequence must be obtainable from the submitted one by deleting TimeSensitive packets only.
        # Payload digests may repeat (e.g. empty packets), so all embeddings are explored: `front` = set of
        # positions j such that got[:i] is matched and every non-TimeSensitive packet of sent[:j] is consumed.
        front = {0}
        def close(fr):
            out = set(fr); stack = list(fr)
            while stack:
                j = stack.pop()
                if j < len(sent) and sent[j].mode == 0 and j + 1 not in out:
                    out.add(j + 1); stack.append(j + 1)
            return out
        front = close(front)
        bad = None
        for i, d in enumerate(got):
            nxt = {j + 1 for j in front if j < len(sent) and sent[j].digest == d}
            if not nxt:
                bad = (i, d, max(front))
                break
            front = close(nxt)
        if bad:
            i, d, j = bad
            exp = sent[j] if j < len(sent) else None
            fails.append({"oracle": "global_order", "detail": "%s: delivery #%d is %s but the next deliverable submitted packet of %s is #%s (%s, mode %s) — out of order, skipped, duplicated or altered on a loss-free in-order network" %
                          (ep, i, d, src, exp.idx if exp else "-", exp.digest if exp else "-", exp.mode if exp else "-"), "signature": {"oracle": "global_order"}})
            return fails
        if sim.drained:
            if len(sent) not in front:
                j = max(front)
                fails.append({"oracle": "all_delivered", "detail": "%s never received packet #%d (mode %d, %d bytes) on a loss-free network" % (ep, sent[j].idx, sent[j].mode, sent[j].len),
                              "signature": {"oracle": "all_delivered"}})
        elif not sim.dead and not H.tail_progress(ops, outs):
            fails.append({"oracle": "quiescence", "detail": "ideal network, not quiescent after %d virtual s" % (sim.time // 10**9), "signature": {"oracle": "quiescence"}})
    return fails
