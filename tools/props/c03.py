"""C03 — no network input can crash or hang an endpoint (half-connection part; the client/server
part is added by the endpoint streams)."""
import vlib
from checkflow import Interactive
from props import hc_common as H
from gen_hc import Sim, Net, pick_cfg, random_traffic, pick_len, parse_probe

PROP = "C03"
LAKE_TARGETS = ["Uflow.Props.C03", "Uflow.Props.C03Rate", "Uflow.Props.C03Recv", "Uflow.Props.C03Hc", "Uflow.Props.C03Ep", "Uflow.Props.C03EpInst", "uflow_driver"]
PROPS_FILES = ["C03", "C03Rate", "C03Recv", "C03Hc", "C03Ep", "C03EpInst"]
TRUSTED_BASE = [
    "Lean 4.33 kernel; axioms per theorem under coverage.axioms",
    "tools/extract_consts.py",
    "hand-written models (Codec, PSend, PRecv, FrameQ, Rate, HalfConn) with every Rust panic / unbounded loop made an explicit Trap outcome; tied to the code by the hostile correspondence streams (a panic or hang on one side only is a disagreement)",
    "harness: catch_unwind per operation, watchdog per case (a hang kills and bisects the case)",
]
ASSUMPTIONS = ["frames reach a connection only through Frame::read (CRC-valid, decoded field ranges)", "allocator aborts and OS socket errors are outside the model"]
PARTIAL = {}
RULE = ("an honest two-endpoint prefix (random traffic, loss) followed by hostile CRC-valid frames injected as raw bytes into one endpoint: data frames with "
        "sequence ids in/out of the windows, parent leads, fragment ids/counts up to 65535, over-limit sizes; ack frames with arbitrary window bases (incl. >= 2^20), "
        "groups around the frame log with right/wrong nonce; sync frames with arbitrary ids; pure noise; interleaved with send/step/flush/recv at spacings incl. 0 ms. "
        "Non-trivial: the injected frame was parsed (output ok). Distinct by (injected kind mix, windows, outcome).")

U32 = 0xFFFFFFFF

def hostile_frame(r, probe, codec):
    """returns frame text built relative to the victim's state."""
    pr = probe["pr"]; aq = probe["aq"]; ps = probe["ps"]; fq = probe["fq"]
    pbase = int(pr[0]); fbase = int(aq[0])
    kind = r.weighted([("data", 6), ("ack", 7), ("sync", 3)])
    if kind == "data":
        fid = (fbase + r.weighted([(0, 6), (1, 2), (r.below(64), 2), (5000, 1), (U32, 1)])) & U32
        k = r.weighted([(1, 5), (2, 2), (3, 1), (20, 1)])
        dgs = []
        for _ in range(k):
            seq = (pbase + r.weighted([(0, 5), (1, 3), (r.below(16), 3), (4095, 1), (4096, 1), (r.below(1 << 20), 1), ((1 << 20) - 1, 1)])) & 0xFFFFF
            flast = r.weighted([(0, 5), (1, 2), (2, 1), (65535, 2), (r.below(65536), 1), (60, 1)])
            fid_ = 0 if flast == 0 else r.pick([0, flast, r.below(flast + 1), flast + 1 if flast < 65535 else 0])
            ln = r.weighted([(0, 1), (5, 3), (1448, 4), (1447, 1), (100, 1)])
            wpl = r.weighted([(0, 4), (1, 2), (2, 1), (r.below(20), 2), (65535, 1)])
            cpl = r.weighted([(0, 4), (wpl, 2), (wpl + 1, 1), (r.below(20), 1), (65535, 1)])
            ch = r.weighted([(0, 4), (1, 2), (63, 1), (r.below(64), 1)])
            pay = "-" if ln == 0 else "@%d:%d" % (r.below(1 << 30), ln)
            dgs.append("%d %d %d %d %d %d %s" % (seq, ch, wpl, cpl, fid_, flast, pay))
            if sum(len(x) for x in dgs) > 100000:
                break
        return "data %d %d %d %s" % (fid, r.below(2), len(dgs), " ".join(dgs))
    if kind == "ack":
        sbase = int(ps[0]); snext = int(ps[1])
        pb = r.weighted([(sbase, 2), (snext, 3), ((sbase + 1) & 0xFFFFF, 2), ((snext + 1) & 0xFFFFF, 2), (snext + (1 << 20), 2), (sbase + (1 << 20), 1),
                         (U32, 1), (r.next() & U32, 2), ((sbase + r.below(8)) & 0xFFFFF, 2)])
        wb = int(fq[0]); ln = int(fq[2])
        fb = r.weighted([(wb, 2), (ln, 3), ((ln + 1) & U32, 1), ((wb + r.below(8)) & U32, 2), (r.next() & U32, 1)])
        k = r.weighted([(0, 2), (1, 4), (2, 2), (5, 1)])
        groups = []
        for _ in range(k):
            # bases at, after and *before* the log base (forgotten frames), ends beyond the log
            b = r.weighted([(int(fq[1]), 3), ((int(fq[1]) + r.below(8)) & U32, 3), ((ln - r.below(4)) & U32, 2), (r.next() & U32, 1),
                            ((int(fq[1]) - r.range(1, 8)) & U32, 4), ((int(fq[1]) - r.range(1, 40)) & U32, 1)])
            bits = r.weighted([(1, 3), (3, 2), (0, 1), (U32, 1), (0x80000001, 1), (r.next() & U32, 2), (r.below(256), 2),
                               (2, 2), (4, 1), (6, 1), (r.below(256) * 2, 3), (1 << r.below(32), 2)])
            nz = r.below(2)
            groups.append("%d %d %d" % (b, bits, nz))
            if r.chance(1, 2) and len(groups) < 6:
                groups.append("%d %d %d" % (b, bits, 1 - nz))
        return ("ack %d %d %d %s" % (fb, pb, len(groups), " ".join(groups))).strip()
    nf = r.weighted([("-", 3), (str((fbase + r.below(8)) & U32), 3), (str((fbase + 4096) & U32), 1), (str(r.next() & U32), 1)])
    npk = r.weighted([("-", 3), (str((pbase + r.below(8)) & 0xFFFFF), 3), (str(pbase + (1 << 20)), 2), (str(U32), 1), (str(r.next() & U32), 1),
                      (str((pbase + 4096) & 0xFFFFF), 1), (str((pbase + 4097) & 0xFFFFF), 1)])
    return "sync %s %s" % (nf, npk)

def streams(rng, tier, ctx):
    n = 70 if tier == "quick" else 1200
    it = Interactive("hc"); codec = Interactive("codec")
    cases = []; meta = {}
    try:
        for i in range(n):
            r = rng.fork()
            it.op("=== gen%d" % i)
            cfg = pick_cfg(r)
            if i % 2 == 0:
                cfg["allocA"] = cfg["allocB"] = r.pick([3000, 20000, 100000])
            if i % 5 == 0:
                cfg["bwA"] = cfg["bwB"] = r.pick([1472, 2000, 5000])
            if i % 9 == 4:
                # a receive allocation large enough for the largest fragment counts (65536 fragments = MAX_PACKET_SIZE)
                cfg["allocA"] = cfg["allocB"] = 200_000_000
            if i % 7 == 3:
                # the send-rate ceiling is min(own max_send_rate, the max_receive_rate field of the peer's handshake frame):
                # a hostile peer may put anything there
                cfg["bwA"] = cfg["bwB"] = r.pick([0, 0, 1, 22, 100, 2**31, 2**32 - 1, 2**32 - 1])
            sim = Sim(r, cfg, inter=it)
            net = Net(loss=r.pick([0, 100]), latency=r.pick([0, 1_000_000]))
            dt = r.pick([0, 250_000, 1_000_000, 16_000_000])
            sim.run(r.range(3, 25), dt, net, net, random_traffic(r, rate_pm=500, max_len=3000))
            victim = r.pick(["A", "B"])
            kinds = []
            for round_ in range(r.range(2, 12)):
                if sim.dead:
                    break
                p = sim.probe(victim)
                if p is None:
                    break
                for _ in range(r.range(1, 4)):
                    if r.chance(1, 12):
                        # noise of every length from 1 byte up, incl. the short all-zero / all-one strings and a bare CRC of nothing
                        L = r.weighted([(r.range(1, 9), 3), (r.range(5, 60), 4), (r.range(60, 1472), 1)])
                        hx = r.weighted([(r.bytes(L).hex(), 4), ("00" * min(L, 9), 2), ("ff" * min(L, 9), 1), (codec.op("crc -").strip() and "%08x" % int(codec.op("crc -")), 1)])
                        kinds.append("noise")
                    else:
                        txt = hostile_frame(r, p, codec)
                        hx = codec.op("enc " + txt)
                        kinds.append(txt.split(" ")[0])
                        if hx in ("bad-op", "-") or hx.startswith("trap") or hx in ("hang", "abort"):
                            continue
                    sim.op("%s raw %s" % (victim, hx))
                if r.chance(1, 3):
                    sim.send(victim, r.below(4), r.below(4), pick_len(r, 3000))
                sim.run(r.range(1, 4), r.pick([0, 1_000_000, 50_000_000, 3_000_000_000]), net, net)
            sim.kinds = kinds
            cid = "h%d" % i
            cases.append((cid, sim.ops)); meta[cid] = sim
    finally:
        it.close(); codec.close()
    return [{"name": "hostile_hc", "mode": "hc", "cases": cases, "meta": meta, "case_timeout": 8}]

def classify(op, out):
    t = op.split(" ")
    k = t[1] if len(t) > 1 and t[0] in ("A", "B") else t[0]
    o = out.split(" ")[0]
    if o[:1].isdigit(): o = "n"
    if o.startswith("fa=") or o.startswith("sbs="): o = "state"
    return k + ":" + o

def signature(ops, outs):
    inj = [o for op, o in zip(ops, outs) if " raw " in op]
    if not any(o == "ok" for o in inj):
        return None
    kinds = tuple(sorted(set(classify(op, o) for op, o in zip(ops, outs) if " raw " in op)))
    trap = next((o for o in outs if o.startswith("trap") or o in ("hang", "abort")), "")
    return (ops[1][:40], kinds, trap, len(inj))

def oracle(stream, cid, ops, outs):
    fails = []
    for i, o in enumerate(outs):
        if o.startswith("trap") or o in ("hang", "abort"):
            op = ops[i] if i < len(ops) else "?"
            t = op.split(" ")
            what = t[1] if len(t) > 1 and t[0] in ("A", "B") else t[0]
            # which hostile frame kind preceded (for the signature)
            prev = ""
            for j in range(i, -1, -1):
                if " raw " in ops[j]:
                    prev = ops[j].split(" ")[2][:2]; break
            fails.append({"oracle": "no_trap", "detail": "op#%d `%s` -> %s" % (i, op[:200], o),
                          "signature": {"oracle": "no_trap", "kind": o, "at": what, "after_type": prev}})
            break
    return fails
