"""C04 — fragmentation and reassembly are exact for every packet size."""
import vlib
from checkflow import Interactive
from props import hc_common as H
from gen_hc import Sim, Net, pick_cfg, random_traffic, pick_len, F

PROP = "C04"
LAKE_TARGETS = ["Uflow.Props.C04", "Uflow.Props.C04Sys", "uflow_driver"]
PROPS_FILES = ["C04", "C04Sys"]
TRUSTED_BASE = [
    "Lean 4.33 kernel; axioms per theorem under coverage.axioms (propext, Classical.choice, Quot.sound)",
    "tools/extract_consts.py (MAX_FRAGMENT_SIZE, MAX_FRAME_SIZE, header sizes, MAX_PACKET_SIZE)",
    "hand-written models PSend.Pending.datagram (slicing), PRecv.FragBuf / tryAdd (assembly window), HalfConn.dfePush/dfeFinalize (frame packing), tied to the code by the hc correspondence streams (frame digests, per-datagram summaries and delivered payload digests compared)",
]
ASSUMPTIONS = ["the FragmentBuffer backing store is modelled lazily (map fragment index -> bytes, zero elsewhere); its `unsafe` re-boxing is C19's subject"]
RULE = ("(a) size sweep: every payload length in [k*1448-2, k*1448+2] for k<=6 plus 0,1,2 and random lengths up to 64 kB, Reliable, over networks that drop, duplicate, "
        "reorder and delay fragments, with small credits cutting packets across flushes; (b) mixed lossy two-endpoint scenarios; (c) forged-header fragments injected "
        "for in-progress packets; (d) implementation only: one packet of 65535*1448-1 .. MAX_PACKET_SIZE bytes over an ideal link. Non-trivial: at least one multi-fragment packet was delivered. Distinct by (sizes bucket, window sizes, fates). (e) the short last fragment re-sent into a still incomplete packet two or more times (earlier fragments and all acks lost for 2.5-6 s).")

def streams(rng, tier, ctx):
    n = 16 if tier == "quick" else 300
    it = Interactive("hc"); codec = Interactive("codec")
    cases = []; meta = {}
    try:
        sizes = [0, 1, 2] + [k * F + d for k in range(1, 7) for d in (-2, -1, 0, 1, 2)]
        for i in range(n):
            r = rng.fork()
            it.op("=== gen%d" % i)
            cfg = pick_cfg(r)
            cfg["allocA"] = cfg["allocB"] = 200000
            cfg["bwA"] = cfg["bwB"] = r.pick([20_000_000, 2_000_000, 300_000])
            sim = Sim(r, cfg, inter=it)
            net = Net(loss=r.pick([0, 100, 300]), dup=r.pick([0, 100, 300]), jitter=r.pick([0, 2_000_000, 30_000_000]), latency=r.pick([0, 5_000_000]),
                      reorder=r.pick([0, 200, 500]))
            back = Net(loss=r.pick([0, 100]), latency=net.latency)
            mine = [sizes[(i * 7 + j) % len(sizes)] for j in range(7)] + [r.range(0, 65000) for _ in range(2 if tier == "quick" else 4)]
            queue = list(mine)
            def traffic(sim, ep):
                if ep == "A" and queue and r.chance(1, 2):
                    sim.send("A", r.below(3), 3, queue.pop(0))
                    if queue and r.chance(1, 3):
                        sim.send("A", r.below(3), r.pick([2, 3]), queue.pop(0))
            forged = 0
            forged_by_seq = {}      # sequence id -> header mutations already used: two forged fragments that agree with each other could
            #                         assemble into a packet nobody submitted (legitimately: the first fragment seen defines the packet)
            for round_ in range(40):
                sim.run(3, r.pick([1_000_000, 10_000_000, 40_000_000]), net, back, traffic)
                # forged-header copy of a fragment in flight (same ids, other leads / last id / channel)
                if sim.frames["A"] and r.chance(1, 3) and not sim.dead:
                    f = r.pick(sim.frames["A"][-6:])
                    if f["kind"] == "D" and f["dgs"] and f["dgs"][0]["last"] > 0:
                        d = f["dgs"][0]
                        free = [m for m in ["chan", "wpl", "last"] if m not in forged_by_seq.get(d["seq"], ())]
                        mut = r.pick(free) if free else None
                        forged_by_seq.setdefault(d["seq"], set()).add(mut)
                        chan = (d["chan"] + 1) % 64 if mut == "chan" else d["chan"]
                        wpl = d["wpl"] + 1 if mut == "wpl" else d["wpl"]
                        cpl = d["cpl"] if d["cpl"] == 0 or d["cpl"] >= wpl else wpl
                        last = d["last"] + 1 if mut == "last" else d["last"]
                        p = sim.probe("B") if mut else None
                        if p is not None:
                            fid = (int(p["aq"][0]) + 5) & 0xFFFFFFFF
                            txt = "data %d 0 1 %d %d %d %d %d %d @%d:%d" % (fid, d["seq"], chan, wpl, cpl, d["frag"] if d["frag"] <= last else 0, last, 999 + forged, F if d["frag"] < last else 7)
                            hx = codec.op("enc " + txt)
                            if len(hx) > 20:
                                sim.op("B raw " + hx); forged += 1
                if not queue and round_ > 8:
                    break
            H.finish(sim, drain=True, max_ticks=400)
            cid = "z%d" % i
            cases.append((cid, sim.ops)); meta[cid] = sim
        # slot reuse: small packet windows cycled many times by multi-fragment packets of the droppable modes,
        # so that a window slot that held a partially assembled (then skipped) packet is used again
        k = 10 if tier == "quick" else 200
        for i in range(k):
            r = rng.fork()
            it.op("=== genr%d" % i)
            cfg = pick_cfg(r)
            cfg["pw"] = r.pick([4, 4, 16]); cfg["allocA"] = cfg["allocB"] = 400000
            cfg["bwA"] = cfg["bwB"] = 20_000_000
            sim = Sim(r, cfg, inter=it)
            net = Net(loss=r.pick([150, 300, 450]), jitter=r.pick([0, 1_000_000]), latency=0, dup=r.pick([0, 100]))
            back = Net(loss=0, latency=0)
            count = [0]
            def traffic2(sim, ep):
                if ep == "A" and count[0] < 70 and r.chance(2, 3):
                    for _ in range(r.range(1, 3)):
                        ln = r.pick([F + 1, 2 * F - 1, 2 * F, 2 * F + 1, 3 * F + 5, r.range(F + 1, 4 * F)])
                        sim.send("A", r.below(2), r.weighted([(1, 5), (2, 2), (0, 1), (3, 1)]), ln)
                        count[0] += 1
            sim.run(60, r.pick([20_000_000, 60_000_000, 200_000_000]), net, back, traffic2)
            H.finish(sim, drain=True, max_ticks=300)
            cid = "r%d" % i
            cases.append((cid, sim.ops)); meta[cid] = sim
        # short tails re-sent together: Reliable / Persistent packets of one full fragment plus a tail of 1..255 bytes; every frame
        # carrying a tail is lost the first time, the heads are acknowledged; one RTO later all tails are due at once and are packed
        # into as few frames as fit - the frame-size accounting of re-sent short last fragments is what is exercised
        q = 6 if tier == "quick" else 120
        for i in range(q):
            r = rng.fork()
            it.op("=== gent%d" % i)
            cfg = pick_cfg(r); cfg["pw"] = 64; cfg["fw"] = 64; cfg["allocA"] = cfg["allocB"] = 400000; cfg["bwA"] = cfg["bwB"] = 20_000_000
            sim = Sim(r, cfg, inter=it)
            ok = Net(latency=r.pick([0, 1_000_000]))
            def warm(sim, ep):
                if ep == "A" and sim.tick < 120:           # slow start has to open far enough for a dozen frames per flush
                    for _ in range(4):
                        sim.send("A", r.below(2), r.pick([1, 3]), F)
            sim.run(150, 5_000_000, ok, ok, warm)
            lost = set()
            def fate(sim, ep, idx, f, lost=lost):
                if ep != "A" or f["kind"] != "D":
                    return None
                tails = [d for d in f["dgs"] if d["last"] > 0 and d["frag"] == d["last"] and d["dlen"] < 256]
                fresh = [d for d in tails if (d["seq"], d["frag"]) not in lost]
                if fresh:
                    for d in fresh:
                        lost.add((d["seq"], d["frag"]))
                    return []
                return None
            sim.fate_fn = fate
            # k tails of t bytes fill a frame to the brim when 10 + k * (14 + t) is about 1472 (14 = large datagram header, which
            # every fragment of a multi-fragment packet carries)
            k = r.pick([6, 6, 7, 8, 9, 10, 12])
            t = min(255, max(1, 1462 // k - 14 + r.pick([-3, -1, 0, 1, 1, 2, 3, 4, 5, 6])))
            for _ in range(k + r.pick([0, 0, 1])):
                sim.send("A", r.below(2), r.pick([3, 3, 2]), F + t)
            sim.run(r.range(60, 120), 5_000_000, ok, ok)
            sim.fate_fn = None
            H.finish(sim, drain=True, max_ticks=300)
            cid = "t%d" % i
            cases.append((cid, sim.ops)); meta[cid] = sim
        # tail first, more than once: during a first phase every frame carrying an earlier fragment of a multi-fragment packet is
        # lost and so is every acknowledgement, while the frame carrying the short last fragment arrives - so the last fragment is
        # re-sent (in a new frame each time) and reaches the incomplete packet two, three, ... times; then the network is fair
        u = 6 if tier == "quick" else 100
        for i in range(u):
            r = rng.fork()
            it.op("=== genu%d" % i)
            cfg = pick_cfg(r); cfg["fw"] = max(cfg["fw"], 16); cfg["allocA"] = cfg["allocB"] = 400000; cfg["bwA"] = cfg["bwB"] = 20_000_000
            sim = Sim(r, cfg, inter=it)
            ok = Net(latency=r.pick([0, 1_000_000]))
            def warm_u(sim, ep, r=r):
                if ep == "A" and sim.tick < 120:           # slow start has to open first: several frames per flush
                    for _ in range(4):
                        sim.send("A", r.below(2), r.pick([1, 3]), F)
            sim.run(150, 5_000_000, ok, ok, warm_u)
            t_fair = sim.time + r.pick([2_500, 4_000, 6_000]) * 1_000_000
            def fate_u(sim, ep, idx, f, t_fair=t_fair):
                if sim.time >= t_fair:
                    return None
                if ep == "B":
                    return []
                if f["kind"] == "D" and any(d["last"] > 0 and d["frag"] < d["last"] for d in f["dgs"]):
                    return []
                return None
            sim.fate_fn = fate_u
            for _ in range(r.range(1, 3)):
                sim.send("A", r.below(2), r.pick([3, 3, 2]), r.range(2, 5) * F - r.pick([1, 100, 700, F - 1, 1348]))
            sim.run((t_fair - sim.time) // 50_000_000 + r.range(10, 30), 50_000_000, ok, ok)
            sim.fate_fn = None
            H.finish(sim, drain=True, max_ticks=300)
            cid = "u%d" % i
            cases.append((cid, sim.ops)); meta[cid] = sim
        m = 6 if tier == "quick" else 150
        for i in range(m):
            r = rng.fork()
            it.op("=== genl%d" % i)
            sim = H.lossy_scenario(r, it, tier, small_volume=False)
            H.finish(sim, drain=True, max_ticks=300)
            cid = "l%d" % i
            cases.append((cid, sim.ops)); meta[cid] = sim
    finally:
        it.close(); codec.close()
    out = [{"name": "sizes", "mode": "hc", "cases": cases, "meta": meta, "case_timeout": 120}]
    # the largest packets (65535 and 65536 fragments, MAX_PACKET_SIZE and its neighbours): implementation only — the
    # executable model cannot hold a 95 MB byte list; the theorems C04_slices / C04_emit_wf cover these sizes on the model
    MAXP = 65536 * F
    sizes = [MAXP, MAXP - 1, 65535 * F + 1, 65535 * F, 65535 * F - 1]
    pick = [sizes[rng.below(3)]] if tier == "quick" else sizes
    it = Interactive("hc")
    bcases = []; bmeta = {}
    try:
        for i, ln in enumerate(pick):
            r = rng.fork()
            it.op("=== genmax%d" % i)
            cfg = pick_cfg(r); cfg["pw"] = 4096; cfg["fw"] = 4096; cfg["bwA"] = cfg["bwB"] = 2_000_000_000; cfg["allocA"] = cfg["allocB"] = 100_000_000
            sim = Sim(r, cfg, inter=it)
            ok = Net(latency=0)
            sim.send("A", r.below(3), 3, ln, huge=True)
            sim.send("A", r.below(3), 3, 10)
            for _ in range(16000):
                sim.run(1, 5_000_000, ok, ok)
                if sim.dead or len(sim.delivered["B"]) >= 2:
                    break
            sim.run(5, 5_000_000, ok, ok)
            sim.drained = sim.quiescent()
            cid = "x%d" % i
            bcases.append((cid, sim.ops)); bmeta[cid] = sim
    finally:
        it.close()
    out.append({"name": "max_size", "mode": "hc", "cases": bcases, "meta": bmeta, "case_timeout": 300, "impl_only": True})
    return out

def signature(ops, outs):
    multi = 0
    for op, o in zip(ops, outs):
        if op.endswith(" recv") and o and o[0].isdigit():
            for d in o.split(" ")[1:]:
                if int(d.split(":")[0]) > F:
                    multi += 1
    if multi == 0:
        return None
    return (ops[1][:50], min(multi, 9), sum(1 for op in ops if " raw " in op) > 0)

def oracle(stream, cid, ops, outs):
    fails = H.trap_failures(ops, outs)
    sim = stream["meta"][cid]
    delivered, frames, probes, gets = H.replay_outputs(ops, outs)
    for ep, fs in frames.items():
        for f in fs:
            if f["len"] > 1472:
                fails.append({"oracle": "frame_size", "detail": "%s emitted a frame of %d bytes" % (ep, f["len"]), "signature": {"oracle": "frame_size"}})
                break
    for ep in ("A", "B"):
        src = sim.other(ep)
        sent = [p.digest for p in sim.sent[src]]
        sent_set = {}
        for p in sim.sent[src]:
            sent_set[p.digest] = sent_set.get(p.digest, 0) + 1
        seen = {}
        for (_, d) in delivered.get(ep, []):
            seen[d] = seen.get(d, 0) + 1
            if d not in sent_set:
                fails.append({"oracle": "byte_exact", "detail": "%s delivered %s which was never submitted by %s" % (ep, d, src),
                              "signature": {"oracle": "byte_exact"}})
                break
            if seen[d] > sent_set[d]:
                fails.append({"oracle": "exactly_once", "detail": "%s delivered %s more often than submitted" % (ep, d), "signature": {"oracle": "exactly_once"}})
                break
        # with forged fragments injected, a forged one may be the *first* seen for a packet (then the genuine
        # ones are the inconsistent ones); "arrives" is only demanded of runs without injection
        if getattr(sim, "drained", None) and not any(" raw " in op for op in ops):
            for p in sim.sent[src]:
                if p.mode == 3 and seen.get(p.digest, 0) < 1:
                    fails.append({"oracle": "reliable_arrives", "detail": "Reliable packet #%d (%d bytes) of %s not delivered at quiescence" % (p.idx, p.len, src),
                                  "signature": {"oracle": "reliable_arrives"}})
                    break
    return fails
