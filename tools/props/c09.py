"""C09 — disconnect() flushes reliable data before both sides close."""
import vlib
from checkflow import Interactive
from props import ep_common as E
from props import c08
from gen_ep import EpSim, DEFAULT_EP
from gen_hc import Net

PROP = "C09"
LAKE_TARGETS = ["Uflow.Props.C09", "Uflow.Props.C09Hc", "Uflow.Props.C09Gate", "Uflow.Props.C09Peer", "Uflow.Props.C09GateLater", "Uflow.Props.C09PeerSrv", "Uflow.Props.C09PeerSrvTrace", "uflow_driver"]
PROPS_FILES = ["C09", "C09Hc", "C09Gate", "C09Peer", "C09GateLater", "C09PeerSrv", "C09PeerSrvTrace"]
TRUSTED_BASE = c08.TRUSTED_BASE
ASSUMPTIONS = ["default active_timeout (20 s) on both sides, so that the passive side's terminal event also falls inside the 22 s budget",
               "'eventually flushes' (the liveness part of disconnect()) is C02's subject; here: ordering and the retry budget"]
RULE = ("a client and a server exchange packets of all modes, one side calls disconnect() (or disconnect_now()) with data still queued / in flight; data, ack, disconnect and "
        "disconnect-ack frames are lost, duplicated and reordered, incl. total blackout after the call and zero-length Reliable packets; oracle: every Reliable packet submitted "
        "before disconnect() is in the peer's event list before its Disconnect; from the first transmission of the disconnect request both sides reach a terminal event within "
        "22 s (+ one step); nothing is delivered afterwards (C08 monitor). Non-trivial: a disconnect request was transmitted. Plus an allocation-edge family: both endpoints accept m fragments, a short Reliable packet and one that fits the rest by bytes but not by fragments, then disconnect(). Round-7 second stream `gate` on two real HalfConnections: whenever is_send_pending() is false (the instant an endpoint transmits its disconnect request), the peer next receive() must have handed over every Reliable packet accepted before (families: RTT estimate falling during a resend back-off, frames filled by datagram count).")

BUDGET_NS = 22_000 * 10**6

def scenario(r, it, tier, k, force=None, edge=False):
    """edge: both endpoints accept at most m fragments of packet data (max_receive_alloc = max_packet_size = m * 1448); the last two
    Reliable packets before disconnect() are a short one and one that fits the peer's remaining allowance by its byte length but not
    by its whole-fragment footprint - the sender has to hold it back until the first is acknowledged, or the receiver discards it."""
    sim = EpSim(r, inter=it)
    F = 1448
    m = r.range(2, 6)
    base_cfg = dict(DEFAULT_EP) if not edge else dict(DEFAULT_EP, maxpkt=m * F, alloc=m * F)
    sim.srv(8, 8, r.pick([0, 1]), dict(base_cfg))
    lat = r.pick([0, 5_000_000, 40_000_000])
    if (not force) and k % 4 == 2 and lat == 0:
        lat = 40_000_000      # crossing requests: with no latency the side that steps second hears the request before it sends its own
    clean = {"c2s": Net(latency=lat), "s2c": Net(latency=lat)}
    lossy = {"c2s": Net(loss=r.pick([0, 100, 300]), dup=r.pick([0, 200]), latency=lat, jitter=r.pick([0, 20_000_000]), reorder=r.pick([0, 200])),
             "s2c": Net(loss=r.pick([0, 100, 300]), dup=r.pick([0, 200]), latency=lat, reorder=r.pick([0, 200]))}
    sim.nets = lossy
    dt = r.pick([5_000_000, 20_000_000, 100_000_000])
    sim.dt = dt
    sim.cli(0, dict(base_cfg), clean)
    caller = r.pick(["c", "s"])
    mode_call = r.pick(["disc", "disc", "disc", "discnow"])
    sim.caller = caller; sim.mode_call = mode_call
    connected = lambda: any(tag == "C" for (_, tag, _) in sim.cevents.get(0, [])) and any(tag == "C" for (_, tag, p, _) in sim.sevents)
    # phase 1: handshake on a clean link
    for _ in range(200):
        if connected() or sim.dead:
            break
        sim.run(1, dt, clean)
    # phase 2: traffic over the lossy link
    def traffic(sim):
        if r.chance(1, 3):
            for _ in range(r.range(1, 4)):
                sim.send(caller, 0, r.below(3), r.pick([3, 3, 2, 1]), r.pick([0, 5, 100, 1448, 3000]))
        if r.chance(1, 6):
            sim.send("c" if caller == "s" else "s", 0, 0, 3, 50)
    if edge:
        force = "edge"
        sim.run(r.range(5, 20), dt, clean)
    else:
        sim.run(r.range(5, 60), dt, lossy, traffic)
    crossing = (not force) and k % 4 == 2        # both sides ask for the disconnect before either has heard of the other's request
    style = r.pick(["busy", "quiet", "quiet"]) if not force else "quiet"
    if crossing and k % 8 == 2:
        style = "quiet"                          # every other crossing case: nothing in flight, both requests go out in the same step
    if style == "quiet":
        # let everything be acknowledged first, so that the last packet is the only thing in flight
        sim.run(r.range(30, 80), max(dt, 20_000_000), clean)
    # the last packet(s) and the call
    if edge:
        x = r.pick([1, 10, 100, 700, F - 1])
        d = r.pick([0, 0, 1, 5]); d = min(d, F - 1 - x)
        sim.send(caller, 0, r.below(3), 3, x)
        sim.send(caller, 0, r.below(3), 3, m * F - x - d)
        mode_call = "disc"
    elif force:
        sim.send(caller, 0, r.below(3), 3, r.pick([0, 0, 1]))
        mode_call = "disc"
    else:
        for _ in range(r.range(0, 2)):
            sim.send(caller, 0, r.below(3), 3, r.pick([0, 0, 1, 700, 3000]))
    sim.call(caller + mode_call, 0)
    if crossing or r.chance(1, 5):      # the peer disconnects too
        sim.call(("s" if caller == "c" else "c") + r.pick(["disc", "discnow"]), 0)
    # the frames emitted right after the call are lost
    sim.run((r.range(0, 3) if not crossing else r.pick([0, 0, 1])) if not force else r.range(1, 3), dt, {"c2s": Net(loss=1000), "s2c": Net(loss=1000)})
    after = r.pick(["lossy", "blackout", "clean", "clean"]) if not crossing else r.pick(["lossy", "clean", "clean"])
    nets2 = lossy if after == "lossy" else ({"c2s": Net(loss=1000), "s2c": Net(loss=1000)} if after == "blackout" else clean)
    sim.after = after
    sim.run(r.range(20, 60), dt, nets2)
    big = 500_000_000
    sim.run(int(60_000_000_000 // big), big, nets2, None)
    return sim

def streams(rng, tier, ctx):
    n = 24 if tier == "quick" else 400
    it = Interactive("ep")
    cases = []; meta = {}
    try:
        for k in range(n):
            r = rng.fork()
            it.op("=== gen%d" % k)
            sim = scenario(r, it, tier, k, edge=(k % 8 == 5))
            cid = "d%d" % k
            cases.append((cid, sim.ops)); meta[cid] = sim
    finally:
        it.close()
    out = [{"name": "disconnect", "mode": "ep", "cases": cases, "meta": meta, "case_timeout": 120}]
    # Second stream (round 7, change C09-g), on two real HalfConnections: what the flush gate of disconnect() stands for. The endpoints
    # transmit the disconnect request in the first step in which is_send_pending() is false; theorem C09_hc_gate_then_later_receive says
    # that every Reliable packet accepted before that moment is handed over by the peer's next receive(). Scenarios in which the gate
    # is the delicate part: RTT estimate falling during a resend back-off, frames filled by datagram count, big packets with single
    # fragments lost.
    from props import hc_common as H
    ith = Interactive("hc")
    gcases = []; gmeta = {}
    try:
        for k in range(6 if tier == "quick" else 90):
            r = rng.fork()
            ith.op("=== gate%d" % k)
            sim = [H.rtt_drop_scenario, H.rtt_drop_scenario, H.count_full_scenario][k % 3](r, ith)
            H.finish(sim, drain=True, max_ticks=600)
            gcases.append(("g%d" % k, sim.ops)); gmeta["g%d" % k] = sim
    finally:
        ith.close()
    out.append({"name": "gate", "mode": "hc", "cases": gcases, "meta": gmeta, "case_timeout": 120})
    return out

def gate_oracle(stream, cid, ops, outs):
    """is_send_pending() == false (the `pending=0` of `A get`) at some instant  =>  after B's next receive() every Reliable packet A had
    accepted by then has been delivered at B."""
    from props import hc_common as H
    fails = H.trap_failures(ops, outs)
    sim = stream["meta"][cid]
    sent = sim.sent["A"]
    nsent = 0; got = {}; open_at = None; tick = 0
    for op, o in zip(ops, outs):
        w = op.split(" ")
        if w[0] == "t":
            tick += 1
        elif w[0] == "A" and w[1] == "send" and o == "ok":
            nsent += 1
        elif w[0] == "B" and w[1] == "recv" and o and o[0].isdigit():
            for d in o.split(" ")[1:]:
                got[d] = got.get(d, 0) + 1
            if open_at is not None:
                n_at, t_at = open_at
                need = {}
                for p in sent[:n_at]:
                    if p.mode == 3:
                        need[p.digest] = need.get(p.digest, 0) + 1
                miss = [d for d, c in need.items() if got.get(d, 0) < c]
                if miss:
                    p = next(q for q in sent[:n_at] if q.mode == 3 and q.digest == miss[0])
                    fails.append({"oracle": "gate_means_delivered", "detail": "A reported is_send_pending() = false at tick %d (the instant an endpoint would transmit its disconnect request) but after B's next receive() "
                                  "the Reliable packet #%d (%d bytes) submitted before has not been delivered" % (t_at, p.idx, p.len), "signature": {"oracle": "gate_means_delivered"}})
                    break
                open_at = None
        elif w[0] == "A" and w[1] == "get" and o.startswith("sbs=") and " pending=0" in (" " + o):
            if open_at is None:
                open_at = (nsent, tick)
    return fails

def signature(ops, outs):
    if len(ops) > 1 and ops[1].startswith("A new"):
        nf = sum(o.count(":D,") for op, o in zip(ops, outs) if op.endswith(" flush"))
        return None if nf < 3 else ("gate", ops[1][:40], min(nf // 20, 9))
    disc = sum(1 for o in outs if ":disc" in o and "discack" not in o.split(":disc")[1][:4])
    if not any(":disc" in o for o in outs):
        return None
    call = next((op.split(" ")[0] for op in ops if op.split(" ")[0] in ("cdisc", "cdiscnow", "sdisc", "sdiscnow")), "")
    evs = "".join(sorted(set(e[0] for op, o in zip(ops, outs) if op.startswith(("sstep", "cstep")) and o.startswith("ev") for e in o.split("|")[0].split()[1:])))
    return (call, evs, min(len(ops) // 300, 8))

def oracle(stream, cid, ops, outs):
    if stream["mode"] == "hc":
        return gate_oracle(stream, cid, ops, outs)
    fails = E.trap_failures(ops, outs)
    sim = stream["meta"][cid]
    sev, cev, log, delivered, calls = E.replay(ops, outs)
    call = next(((t, w) for (t, w, q) in calls if w in ("cdisc", "cdiscnow", "sdisc", "sdiscnow")), None)
    # event grammar on both sides
    for i, evs in cev.items():
        m = c08.monitor([(t, tag) for (t, tag, _) in evs], "client %d" % i)
        if m:
            fails.append({"oracle": "event_grammar", "detail": m, "signature": {"oracle": "event_grammar", "side": "client"}})
    if call is None:
        return fails
    tcall, what = call
    caller = what[0]
    # first transmission of the disconnect request by the caller
    dr_out = "c2s" if caller == "c" else "s2c"
    first = next((d["time"] for d in log.get((0, dr_out), []) if d["kind"] == "disc"), None)
    # peer's events
    peer_events = [(t, tag, x) for (t, tag, x) in cev.get(0, [])] if caller == "s" else [(t, tag, x) for (t, tag, p, x) in sev if p == 0]
    own_events = [(t, tag, x) for (t, tag, p, x) in sev if p == 0] if caller == "s" else [(t, tag, x) for (t, tag, x) in cev.get(0, [])]
    peer_disc = next((t for (t, tag, x) in peer_events if tag == "D"), None)
    peer_called = any(w in (("cdisc", "cdiscnow") if caller == "s" else ("sdisc", "sdiscnow", "sdrop")) for (t, w, q) in calls)
    if what.endswith("disc") and peer_disc is not None and not peer_called:
        # every Reliable packet submitted before disconnect() is delivered to the peer before its Disconnect
        got = [x for (t, tag, x) in peer_events if tag == "R" and t <= peer_disc]
        want = [p for p in sim.sent.get((caller, 0), []) if p.mode == 3 and p.time <= tcall]
        have = {}
        for g in got:
            have[g] = have.get(g, 0) + 1
        for p in want:
            if have.get(p.digest, 0) == 0:
                fails.append({"oracle": "flush_before_disconnect", "detail": "Reliable packet #%d (%d bytes) submitted before %s() was not delivered before the peer's Disconnect at %d ms" %
                              (p.idx, p.len, what, peer_disc // 10**6), "signature": {"oracle": "flush_before_disconnect"}})
                break
            have[p.digest] -= 1
    if first is not None:
        slack = 2 * 500_000_000
        for who, evs in (("caller", own_events), ("peer", peer_events)):
            conn = next((t for (t, tag, x) in evs if tag == "C"), None)
            term = next((t for (t, tag, x) in evs if tag in ("D", "E")), None)
            if conn is None:
                continue
            if term is None or term > first + BUDGET_NS + slack:
                fails.append({"oracle": "retry_budget", "detail": "%s: disconnect request first sent at %d ms, terminal event %s" %
                              (who, first // 10**6, "never" if term is None else "only at %d ms" % (term // 10**6)), "signature": {"oracle": "retry_budget", "who": who}})
    return fails


def directed_search(broken, rng, tier, disagreements):
    """After a proof / correspondence break: the flush gate is exercised with the smallest unacknowledged
    state — one (possibly empty) Reliable packet in flight, its frame lost right after disconnect()."""
    found = []
    it = Interactive("ep")
    try:
        for k in range(40):
            r = rng.fork()
            it.op("=== ds%d" % k)
            sim = scenario(r, it, tier, k, force=True)
            stream = {"meta": {"x": sim}}
            fs = [f for f in oracle(stream, "x", sim.ops, sim.outs) if f["oracle"] != "no_trap"]
            if fs:
                found.append({"mode": "ep", "ops": sim.ops, "impl_out": sim.outs, "oracle": fs[0]["oracle"], "detail": fs[0]["detail"], "signature": fs[0]["signature"]})
                break
    finally:
        it.close()
    return found
