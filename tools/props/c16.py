"""C16 — frame codec round-trips, rejects malformed input, CRC catches <= 4 flips."""
import vlib
from checkflow import Interactive

PROP = "C16"
LAKE_TARGETS = ["Uflow.Props.C16", "Uflow.Props.C16Flips", "uflow_driver"]
PROPS_FILES = ["C16", "C16Flips"]
NATIVE_OK = ("C16_reject_flips",)
NATIVE_FILES = ("Uflow/Lemmas/CrcHD4.lean",)
TRUSTED_BASE = [
    "Lean 4.33 kernel; axioms per theorem listed under coverage.axioms (subset of propext, Classical.choice, Quot.sound)",
    "tools/extract_consts.py: reads frame ids, payload sizes, header sizes, MAX_FRAME_SIZE, the CRC polynomial and the 256 table words from /repo/src",
    "hand-written model Uflow/Model/Codec.lean + Uflow/Model/Crc.lean, tied to Frame::write / Frame::read / crc::compute by the correspondence streams of this run",
    "harness (uh codec) text <-> frame conversion and the Lean driver's mirror of it",
]
ASSUMPTIONS = [
    "bytes on the wire are < 256 (the model uses Nat for bytes)",
    "C16_reject_flips (<=4 flips) rests on one native_decide (Uflow/Lemmas/CrcHD4.lean: 6.9e7-pair search, axiom Uflow.Crc.hd4_search._native.native_decide.ax_1_1, i.e. the Lean compiler is trusted for that evaluation); C16_reject_flips3 (<=3 flips) is kernel-only; the flip stream samples the same claim on the implementation",
]
PARTIAL = {}
RULE = ("cases are generated from one splitmix64 stream (seed ^ property id): representable frames of all nine types biased to the "
        "63/64, 127/128, 255/256 header thresholds, maximum sizes and field extremes (ops enc/rt/size); byte strings for dec: noise, "
        "truncated/extended valid frames with original or recomputed CRC, valid frames with mutated type/count/length/enum bytes and "
        "recomputed CRC; 1-4 bit flips of valid frames. A case is non-trivial if at least one output is neither `none` nor `bad-op`; "
        "distinct = distinct (stream, frame kind / header-encoding mix, length bucket, output kind) signatures.")

U32 = 0xFFFFFFFF
CANON = {}   # op text of a data frame -> canonical text (payloads in hex)

def pick_u32(r):
    return r.weighted([(0, 2), (U32, 2), (1, 1), (0x80000000, 1), (r.next() & U32, 6)])

def gen_datagram(r, max_len=1448):
    flast = r.weighted([(0, 7), (1, 1), (65535, 1), (r.below(65536), 1)])
    fid = 0 if flast == 0 else r.pick([0, flast, r.below(flast + 1)])
    ln = r.weighted([(0, 2), (1, 1), (62, 1), (63, 2), (64, 2), (65, 1), (254, 1), (255, 2), (256, 2), (257, 1),
                     (1447, 1), (1448, 2), (r.below(1449), 4)])
    ln = min(ln, max_len)
    return {
        "seq": r.weighted([(0, 1), (0xFFFFF, 2), (0xF0000, 1), (0x0FFFF, 1), (0x12345, 1), (r.below(1 << 20), 4)]),
        "chan": r.weighted([(0, 1), (15, 1), (16, 1), (31, 1), (32, 1), (47, 1), (48, 1), (63, 2), (r.below(64), 3)]),
        "wpl": r.weighted([(0, 2), (1, 1), (127, 2), (128, 2), (255, 1), (256, 1), (65535, 1), (r.below(65536), 2)]),
        "cpl": r.weighted([(0, 2), (1, 1), (255, 2), (256, 2), (65535, 1), (r.below(65536), 2)]),
        "fid": fid, "flast": flast, "len": ln, "seed": r.below(1 << 30),
    }

def gen_payload(seed, n):
    """same LCG as harness util::gen_payload / Lean genPayload"""
    x = seed & 0xFFFFFFFFFFFFFFFF; out = bytearray()
    for _ in range(n):
        x = (x * 6364136223846793005 + 1442695040888963407) & 0xFFFFFFFFFFFFFFFF
        out.append((x >> 33) & 0xFF)
    return bytes(out)

def dg_text(d, canon=False):
    if d["len"] == 0:
        pay = "-"
    elif canon:
        pay = gen_payload(d["seed"], d["len"]).hex()
    else:
        pay = "@%d:%d" % (d["seed"], d["len"])
    return "%d %d %d %d %d %d %s" % (d["seq"], d["chan"], d["wpl"], d["cpl"], d["fid"], d["flast"], pay)

def dg_kind(d):
    if d["flast"] == 0 and d["len"] < 64 and d["wpl"] < 128 and d["cpl"] < 256:
        return "m"
    if d["flast"] == 0 and d["len"] < 256:
        return "s"
    return "l"

def gen_frame(r, kind=None, big=False):
    """returns (text, signature)"""
    kind = kind or r.weighted([("syn", 1), ("synack", 1), ("hsack", 1), ("hserr", 1), ("disc", 1), ("discack", 1),
                                ("data", 8), ("sync", 2), ("ack", 3)])
    if kind == "syn":
        return "syn %d %d %d %d %d" % (r.pick([0, 3, 255, r.below(256)]), pick_u32(r), pick_u32(r), pick_u32(r), pick_u32(r)), kind
    if kind == "synack":
        return "synack %d %d %d %d %d" % tuple(pick_u32(r) for _ in range(5)), kind
    if kind == "hsack":
        return "hsack %d" % pick_u32(r), kind
    if kind == "hserr":
        return "hserr %d %d" % (pick_u32(r), r.below(3)), kind
    if kind in ("disc", "discack"):
        return kind, kind
    if kind == "sync":
        f = r.pick(["-", str(pick_u32(r))]); p = r.pick(["-", str(pick_u32(r))])
        return "sync %s %s" % (f, p), "sync%d%d" % (f != "-", p != "-")
    if kind == "ack":
        k = r.weighted([(0, 2), (1, 2), (2, 1), (161, 1), (162, 1), (r.below(40), 3)] + ([(1000, 1), (65535, 1)] if big else []))
        groups = " ".join("%d %d %d" % (pick_u32(r), pick_u32(r), r.below(2)) for _ in range(k))
        return ("ack %d %d %d %s" % (pick_u32(r), pick_u32(r), k, groups)).strip(), "ack%d" % min(k, 3)
    # data
    k = r.weighted([(0, 1), (1, 4), (2, 2), (3, 1), (127, 1), (r.below(12), 2)])
    dgs = [gen_datagram(r, max_len=(40 if k > 20 else 1448)) for _ in range(k)]
    kinds = "".join(sorted(set(dg_kind(d) for d in dgs)))
    sid = pick_u32(r); nonce = r.below(2)
    txt = "data %d %d %d %s" % (sid, nonce, k, " ".join(dg_text(d) for d in dgs))
    CANON[txt.strip()] = ("data %d %d %d %s" % (sid, nonce, k, " ".join(dg_text(d, True) for d in dgs))).strip()
    return txt.strip(), "data[%s]%d" % (kinds, min(k, 3))

def canon_frame_text(txt, inter):
    """canonical text (payloads in hex) is what the decoder prints; obtained by formatting through the harness"""
    return None

def streams(rng, tier, ctx):
    n_enc = 300 if tier == "quick" else 6000
    n_dec = 300 if tier == "quick" else 6000
    n_flip = 200 if tier == "quick" else 5000
    out = []

    # (a) encode / round trip / size
    r = rng.fork()
    cases = []; expect = {}
    for i in range(n_enc):
        txt, sig = gen_frame(r, big=(tier == "thorough" and i % 50 == 0))
        ops = ["enc " + txt, "rt " + txt]
        if txt.startswith("data") and " " in txt:
            pass
        cid = "enc%d" % i
        cases.append((cid, ops)); expect[cid] = sig
    # datagram size op
    for i in range(n_enc // 3):
        d = gen_datagram(r)
        cases.append(("size%d" % i, ["size " + dg_text(d), "enc data 1 0 1 " + dg_text(d)]))
        expect["size%d" % i] = "size" + dg_kind(d)
    out.append({"name": "encode", "mode": "codec", "cases": cases, "sig": expect})

    # (b) decode of arbitrary / mutated byte strings; needs the implementation's own encodings
    r = rng.fork()
    it = Interactive("codec")
    cases = []; expect = {}
    def with_crc(body_hex):
        c = int(it.op("crc " + (body_hex or "-")))
        return (body_hex if body_hex != "-" else "") + "%08x" % c
    try:
        # boundary strings, every run: all-zero / all-one strings of 0..9 bytes, and the CRC-valid strings with a body of 0..4
        # arbitrary bytes (a body of 0 bytes: the four CRC bytes of the empty string alone)
        k = 0
        for L in range(10):
            for fill in ("00", "ff"):
                cases.append(("bnd%d" % k, ["dec " + ((fill * L) or "-")])); expect["bnd%d" % k] = ("noise", None); k += 1
        for L in range(5):
            for _ in range(2):
                cases.append(("bnd%d" % k, ["dec " + with_crc(r.bytes(L).hex() or "-")])); expect["bnd%d" % k] = ("noisecrc", None); k += 1
        for i in range(n_dec):
            cid = "dec%d" % i
            how = r.weighted([("noise", 2), ("noisecrc", 2), ("trunc", 3), ("ext", 3), ("mut", 6), ("valid", 2)])
            if how in ("noise", "noisecrc"):
                n = r.weighted([(0, 1), (1, 1), (4, 1), (5, 1), (6, 1), (r.below(64), 4), (r.below(1500), 2)])
                b = r.bytes(n).hex() or "-"
                if how == "noisecrc" and n > 0:
                    # first byte a known type id more often than not
                    if r.chance(3, 4):
                        b = "%02x" % r.pick([0, 1, 2, 3, 4, 5, 10, 11, 12]) + b[2:]
                    b = with_crc(b)
                cases.append((cid, ["dec " + b])); expect[cid] = (how, None)
                continue
            txt, sig = gen_frame(r)
            hx = it.op("enc " + txt)
            if hx in ("bad-op",) or hx.startswith("trap"):
                continue
            raw = bytes.fromhex(hx)
            if how == "valid":
                cases.append((cid, ["dec " + hx])); expect[cid] = ("valid", sig)
            elif how == "trunc":
                k = r.weighted([(1, 3), (2, 1), (4, 2), (5, 1), (r.range(1, len(raw)), 2)])
                k = min(k, len(raw))
                if r.chance(1, 2):
                    cut = raw[:len(raw) - k]           # drop the tail, CRC position shifts
                    cases.append((cid, ["dec " + (cut.hex() or "-")])); expect[cid] = ("trunc-raw", "none")
                else:
                    body = raw[:-4][:max(0, len(raw) - 4 - k)]  # drop from the body, recompute CRC
                    cases.append((cid, ["dec " + with_crc(body.hex() or "-")])); expect[cid] = ("trunc-crc", None)
            elif how == "ext":
                k = r.weighted([(1, 3), (2, 1), (4, 2), (9, 1), (r.range(1, 40), 2)])
                extra = r.bytes(k) if r.chance(1, 2) else bytes(k)
                if r.chance(1, 2):
                    cases.append((cid, ["dec " + (raw + extra).hex()])); expect[cid] = ("ext-raw", "none")
                else:
                    cases.append((cid, ["dec " + with_crc((raw[:-4] + extra).hex())])); expect[cid] = ("ext-crc", "none")
            else:
                body = bytearray(raw[:-4])
                m = r.weighted([("type", 2), ("byte1", 2), ("count", 3), ("hdr", 4), ("any", 3), ("enum", 1)])
                if m == "type":
                    body[0] = r.pick([0, 1, 2, 3, 4, 5, 6, 9, 10, 11, 12, 13, 255, r.below(256)])
                elif m == "byte1" and len(body) > 1:
                    body[1] = r.below(256)
                elif m == "count" and len(body) > 5:
                    idx = 5 if body[0] == 10 else (min(10, len(body) - 1) if body[0] == 12 else r.below(len(body)))
                    body[idx] = r.pick([0, 1, 2, 127, 128, 255, (body[idx] + 1) % 256, (body[idx] - 1) % 256])
                elif m == "hdr" and len(body) > 6:
                    idx = r.range(6, min(len(body) - 1, 6 + 14))
                    body[idx] = r.pick([0, 0x3f, 0x40, 0x7f, 0x80, 0xbf, 0xc0, 0xff, r.below(256)])
                elif m == "enum" and len(body) > 5:
                    body[5] = r.pick([0, 1, 2, 3, 4, 255])
                elif len(body) > 0:
                    body[r.below(len(body))] = r.below(256)
                cases.append((cid, ["dec " + with_crc(bytes(body).hex())])); expect[cid] = ("mut-" + m, None)
    finally:
        pass
    out.append({"name": "decode", "mode": "codec", "cases": cases, "sig": expect})

    # (c) bit flips of valid frames (sampled support for the <=4-flip clause on the implementation)
    r = rng.fork()
    cases = []; expect = {}
    for i in range(n_flip):
        kind = r.weighted([("data", 6), ("ack", 2), ("syn", 1), (None, 3)])
        txt, sig = gen_frame(r, kind)
        hx = it.op("enc " + txt)
        if hx == "bad-op" or hx.startswith("trap") or hx == "-":
            continue
        nbits = 4 * len(hx)
        w = r.weighted([(1, 2), (2, 3), (3, 2), (4, 4), (5, 1)])
        pos = set()
        # cluster some patterns inside 32 bits or across the CRC field, where short codewords would live
        base = r.pick([0, max(0, nbits - 64), r.below(nbits)])
        span = r.pick([33, 64, 200, nbits])
        while len(pos) < min(w, nbits):
            pos.add(min(nbits - 1, base + r.below(span)) if r.chance(2, 3) else r.below(nbits))
        cid = "flip%d" % i
        cases.append((cid, ["flip %s %s" % (hx, ",".join(str(p) for p in sorted(pos)))]))
        expect[cid] = ("flip%d" % len(pos), "none" if len(pos) <= 4 else None)
    it.close()
    out.append({"name": "flips", "mode": "codec", "cases": cases, "sig": expect})
    return out

def classify(op, out):
    k = op.split(" ", 1)[0]
    if out.startswith("trap"): return out
    if out in ("none", "bad-op", "hang", "abort"): return k + ":" + out
    if k in ("enc",): return "enc:bytes"
    if k in ("crc", "size"): return k + ":num"
    return k + ":" + out.split(" ", 1)[0]

def signature(ops, outs):
    if not outs or all(o in ("none", "bad-op") for o in outs):
        return None
    op = ops[0]
    k = op.split(" ")
    ln = len(op)
    bucket = 0 if ln < 64 else 1 if ln < 300 else 2 if ln < 1500 else 3
    first = outs[-1].split(" ", 1)[0]
    return (k[0], k[1] if k[0] in ("enc", "rt", "size") else "", bucket, first[:8])

def oracle(stream, cid, ops, outs):
    fails = []
    exp = stream["sig"].get(cid)
    for op, o in zip(ops, outs):
        if o.startswith("trap") or o in ("hang", "abort"):
            fails.append({"oracle": "codec_no_trap", "detail": "%s -> %s" % (op[:200], o),
                          "signature": {"oracle": "codec_no_trap", "op": op.split(" ", 1)[0]}})
    if len(outs) < len(ops):
        return fails
    name = stream["name"]
    if name == "encode" and cid.startswith("enc"):
        # round trip on the implementation: rt output is the canonical text of the input frame.
        # canonical text = what `dec` prints; compare through a normaliser (payload refs -> hex is done by the
        # harness itself: rt prints hex). We compare structure: re-encoding the rt output must give the same bytes.
        if outs[1] == "none" or outs[1].startswith("bad"):
            fails.append({"oracle": "roundtrip", "detail": "%s -> %s" % (ops[1][:200], outs[1]),
                          "signature": {"oracle": "roundtrip", "kind": str(exp)}})
        else:
            txt = ops[1][3:]
            want = CANON.get(txt, txt)
            if outs[1] != want:
                fails.append({"oracle": "roundtrip", "detail": "%s -> %s" % (ops[1][:200], outs[1][:200]),
                              "signature": {"oracle": "roundtrip", "kind": str(exp)}})
    if name in ("decode", "flips") and exp is not None:
        kind, want = exp
        if want == "none" and outs[0] != "none":
            fails.append({"oracle": "reject_" + kind.split("-")[0], "detail": "%s -> %s" % (ops[0][:300], outs[0][:200]),
                          "signature": {"oracle": "reject_" + kind.split("-")[0]}})
        if kind == "valid" and outs[0] == "none":
            fails.append({"oracle": "accept_valid", "detail": ops[0][:300], "signature": {"oracle": "accept_valid"}})
    return fails


def directed_search(broken, rng, tier, disagreements):
    """After a proof / table / correspondence break: look for an accepted 1..4-bit corruption on
    the implementation (syndrome based candidates, each confirmed by Frame::read), and evaluate
    the oracles on the disagreeing scripts."""
    found = []
    it = Interactive("codec")
    try:
        tried = 0
        for kind, big in (("data", False), ("ack", False), ("sync", False), ("data", True), ("syn", False), ("data", False), ("data", False)):
            txt, _ = gen_frame(rng, kind)
            hx = it.op("enc " + txt)
            if hx in ("bad-op", "-") or hx.startswith("trap"):
                continue
            out = it.op("crcsearch " + hx)
            tried += 1
            if out.startswith("found"):
                pos = out.split(" ")[1]
                ops = ["dec " + hx, "flip %s %s" % (hx, pos)]
                found.append({"mode": "codec", "ops": ops, "impl_out": [it.op(ops[0])[:200], it.op(ops[1])[:200]],
                              "oracle": "reject_flip", "detail": "valid frame stays accepted after flipping bits " + pos,
                              "signature": {"oracle": "reject_flip"}})
                break
        for (name, mode, cid, idx, op, x, y, ops) in disagreements[:3]:
            # a disagreement on enc/rt whose implementation side violates the round trip is a failing input
            if op.startswith("rt ") and x != CANON.get(op[3:], op[3:]):
                found.append({"mode": mode, "ops": [op], "impl_out": [x[:300]], "oracle": "roundtrip",
                              "detail": "rt output differs from the submitted frame", "signature": {"oracle": "roundtrip"}})
    finally:
        it.close()
    return found
