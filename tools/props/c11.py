"""C11 — no loss pattern stalls a connection permanently."""
import vlib
from checkflow import Interactive
from props import hc_common as H
from props import c01
from gen_hc import Sim, Net, pick_cfg, pick_len, F

PROP = "C11"
LAKE_TARGETS = ["Uflow.Props.C11", "Uflow.Props.C11Sys", "Uflow.Props.C11Credit", "Uflow.Props.C11NoStall", "uflow_driver"]
PROPS_FILES = ["C11", "C11Sys", "C11Credit", "C11NoStall"]
TRUSTED_BASE = c01.TRUSTED_BASE
ASSUMPTIONS = ["'permanently' is judged with a budget of 20000 virtual seconds of loss-free operation for the backlog left by the fault phase and 1500 s for a fresh 60 kB backlog "
               "(at the 23 B/s floor that backlog alone would take 2600 s): TFRC legitimately restarts from one frame per 64 s",
               "recovery phases are loss-free FIFO; frames in flight when the fault phase ends are lost (part of the fault pattern)",
               "liveness is not a theorem: it is established on every generated schedule; the state machines involved are the ones proved about under C15 / C06 / C12"]
RULE = ("warm-up, window filling (bursts beyond the packet window, the frame window and the peer's receive allocation, all modes mixed), a blackout of one or both directions of "
        "5 ticks .. tens of minutes positioned anywhere (incl. from the first frame), optional order-of-magnitude change of latency and/or step cadence, then loss-free operation "
        "with nothing but step()/flush(); oracle: quiescence is reached, every Reliable packet is delivered, probe packets of the Unreliable, Persistent and Reliable modes submitted "
        "after the fault (on used and on fresh channels) are delivered, a TimeSensitive probe submitted at quiescence is delivered, and a fresh 60 kB backlog drains faster than the "
        "rate floor would allow. Non-trivial: the blackout swallowed at least one frame. Distinct by (windows, blackout direction/length bucket, changes, fill).")

def scenario(r, it, idx):
    cfg = pick_cfg(r)
    cfg["bwA"] = cfg["bwB"] = r.pick([50_000, 200_000, 2_000_000])
    cfg["allocA"] = cfg["allocB"] = r.pick([20_000, 100_000, 1_000_000])
    only_unrel = r.chance(1, 3)        # the whole window Unreliable / TimeSensitive (nothing to resend) and lost, more packets queued behind it
    if only_unrel:
        if r.chance(1, 2): cfg["pw"] = r.pick([4, 16])
        else: cfg["allocA"] = cfg["allocB"] = 20_000
    sim = Sim(r, cfg, inter=it)
    lat1 = r.pick([0, 2_000_000, 15_000_000, 100_000_000])
    dt1 = r.pick([1_000_000, 5_000_000, 16_000_000, 100_000_000])
    both = r.chance(1, 3)
    vol = [0]
    def traffic(rate, modes=None, big=False, cap=150_000):
        modes = modes or ((1, 1, 0) if only_unrel else (0, 1, 2, 3))
        def tr(sim, ep):
            if (ep == "A" or both) and r.below(1000) < rate and vol[0] < cap:
                for _ in range(r.range(1, 6 if big else 3)):
                    ln = r.pick([F, 2 * F + 1, 4000]) if big else pick_len(r, 3000)
                    vol[0] += ln
                    sim.send(ep, r.below(4), r.pick(list(modes)), ln)
        return tr
    meta = {"cfg": cfg, "lat1": lat1, "dt1": dt1}
    # 1. warm-up (possibly none: blackout from the very first frame)
    warm = r.pick([0, 0, 20, 60])
    if warm:
        sim.run(warm, dt1, Net(latency=lat1, loss=r.pick([0, 0, 100])), Net(latency=lat1), traffic(400), probe_every=10)
    # 2. fill the windows
    fill = r.pick([0, 3, 10]) if not only_unrel else r.pick([3, 10])
    if only_unrel:
        cfg_note = "unreliable-only fill"
    if fill:
        sim.run(fill, dt1, Net(latency=lat1), Net(latency=lat1), traffic(1000, big=True), probe_every=5)
    # 3. blackout
    direction = r.pick(["AB", "BA", "both", "both"]) if not only_unrel else r.pick(["AB", "both"])
    bl_dt = r.pick([dt1, dt1, 1_000_000_000, 5_000_000_000])
    bl_ticks = r.pick([5, 20, 60, 200])
    nAB = Net(loss=1000) if direction in ("AB", "both") else Net(latency=lat1)
    nBA = Net(loss=1000) if direction in ("BA", "both") else Net(latency=lat1)
    f0 = sum(1 for ep in "AB" for f in sim.frames[ep] if f.get("fate") == "drop")
    sim.run(bl_ticks, bl_dt, nAB, nBA, traffic(r.pick([0, 100, 600]) if not only_unrel else 700, big=r.chance(1, 2) or only_unrel), probe_every=20)
    meta["swallowed"] = sum(1 for ep in "AB" for f in sim.frames[ep] if f.get("fate") == "drop") - f0
    meta["blackout"] = (direction, bl_ticks, bl_dt)
    sim.inflight = []
    # 4. change of latency / cadence
    lat2 = r.pick([lat1, lat1, lat1 * 10, lat1 // 10, 30_000_000]); lat2 = min(lat2, 150_000_000)
    dt2 = r.pick([dt1, dt1, dt1 * 10, max(dt1 // 10, 250_000)]); dt2 = min(dt2, 200_000_000)
    meta["lat2"] = lat2; meta["dt2"] = dt2
    sim.latency = lat2
    # 5. recovery: probes of every mode, on a used channel and on fresh ones
    probes = []
    for mode in (1, 2, 3):
        probes.append(sim.send("A", 0, mode, r.pick([10, 100, F + 1])).idx)
        probes.append(sim.send("A", 8 + mode, mode, r.pick([10, 3 * F])).idx)
    meta["probes"] = probes
    meta["drain1"] = sim.drain(max_ticks=40000, dt_ns=dt2, latency=lat2, budget_s=20000, smart=True)
    meta["t1"] = sim.time
    if meta["drain1"] and not sim.dead:
        pr = sim.probe("A")
        # credit for a data frame in the very next flush: non-negative AND nothing that is emitted before data frames (an owed sync
        # reply, pending acknowledgement groups) is waiting to use it up
        if pr is not None and int(pr["fa"][0]) >= 0 and pr["sr"][0] == "0" and pr["aq"][1] == "0":
            p = sim.send("A", 12, 0, 50)
            meta["ts_probe"] = p.idx
            sim.run(max(6, int(2 * lat2 // dt2) + 6), dt2, Net(latency=lat2), Net(latency=lat2))
        # fresh backlog: must drain faster than the floor rate would allow
        t0 = sim.time
        meta["backlog"] = [sim.send("A", r.below(4), 3, 1448 * 2).idx for _ in range(20)]
        meta["drain2"] = sim.drain(max_ticks=40000, dt_ns=dt2, latency=lat2, budget_s=1500, smart=True)
        meta["t_backlog"] = (sim.time - t0) / 1e9
    for ep in sim.eps:
        sim.probe(ep); sim.get(ep)
    sim.meta = meta
    return sim

def streams(rng, tier, ctx):
    n = 20 if tier == "quick" else 400
    it = Interactive("hc")
    cases = []; meta = {}
    try:
        for i in range(n):
            r = rng.fork()
            it.op("=== gen%d" % i)
            sim = scenario(r, it, i)
            cid = "b%d" % i
            cases.append((cid, sim.ops)); meta[cid] = sim
    finally:
        it.close()
    return [{"name": "blackout", "mode": "hc", "cases": cases, "meta": meta, "case_timeout": 240}]

def signature(ops, outs):
    nf = sum(1 for op, o in zip(ops, outs) if op.endswith(" flush") and o and o[0].isdigit() and o[0] != "0")
    if nf < 5:
        return None
    return (ops[1][:60], min(len(ops) // 400, 12))

def oracle(stream, cid, ops, outs):
    fails = H.trap_failures(ops, outs)
    sim = stream["meta"][cid]; m = sim.meta
    if sim.dead:
        return fails
    delivered, frames, probes, gets = H.replay_outputs(ops, outs)
    ctx = "blackout %s x%d ticks of %.3f s, latency %s->%s ms, cadence %s->%s ms, windows f%d/p%d" % (
        m["blackout"][0], m["blackout"][1], m["blackout"][2] / 1e9, m["lat1"] // 10**6, m["lat2"] // 10**6, m["dt1"] / 1e6, m["dt2"] / 1e6, sim.cfg["fw"], sim.cfg["pw"])
    if not m["drain1"]:
        g = gets.get("A", [{}])[-1]
        fails.append({"oracle": "recovers", "detail": "not quiescent after 20000 virtual s of loss-free operation (%s): A pending=%s send_buffer_size=%s" % (ctx, g.get("pending"), g.get("sbs")),
                      "signature": {"oracle": "recovers"}})
        return fails
    got = {}
    for (t, d) in delivered.get("B", []):
        got[d] = got.get(d, 0) + 1
    pk = sim.sent["A"]
    first_backlog = min(m.get("backlog") or [len(pk)])
    for q in pk[:first_backlog]:
        if q.mode == 3 and got.get(q.digest, 0) == 0:
            fails.append({"oracle": "reliable_delivered", "detail": "Reliable packet #%d never delivered although the connection is quiescent (%s)" % (q.idx, ctx),
                          "signature": {"oracle": "reliable_delivered"}})
            return fails
    for j in m["probes"]:
        if got.get(pk[j].digest, 0) == 0:
            fails.append({"oracle": "probe_delivered", "detail": "probe packet #%d (mode %d, channel %d, %d bytes) submitted after the fault phase was never delivered (%s)" %
                          (j, pk[j].mode, pk[j].chan, pk[j].len, ctx), "signature": {"oracle": "probe_delivered", "mode": pk[j].mode}})
            return fails
    if "ts_probe" in m and got.get(pk[m["ts_probe"]].digest, 0) == 0:
        fails.append({"oracle": "ts_probe_delivered", "detail": "TimeSensitive probe submitted at quiescence with non-negative credit was not delivered (%s)" % ctx,
                      "signature": {"oracle": "ts_probe_delivered"}})
        return fails
    if m.get("drain2") is False:
        fails.append({"oracle": "not_pinned", "detail": "a fresh 58 kB Reliable backlog was not delivered within 1500 virtual s after recovery (%s): the sender is pinned near its minimum rate" % ctx,
                      "signature": {"oracle": "not_pinned"}})
    return fails
