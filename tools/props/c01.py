"""C01 — per-channel delivery is in order, at most once, and byte-exact."""
import vlib
from checkflow import Interactive
from props import hc_common as H
from gen_hc import Sim, Net, pick_cfg, random_traffic, pick_len, F

PROP = "C01"
LAKE_TARGETS = ["Uflow.Props.C01", "Uflow.Props.C01Sys", "Uflow.Props.C01Hc", "Uflow.Props.C01Init", "Uflow.Props.C01Age", "Uflow.Props.C01AgeFrames", "Uflow.Props.C01AgeSync", "uflow_driver"]
PROPS_FILES = ["C01", "C01Sys", "C01Hc", "C01Init", "C01Age", "C01AgeFrames", "C01AgeSync"]
TRUSTED_BASE = [
    "Lean 4.33 kernel; axioms per theorem under coverage.axioms",
    "tools/extract_consts.py",
    "hand-written models (Codec, PSend, PRecv, FrameQ, HalfConn) tied to two real HalfConnections by the hc correspondence streams: every emitted frame (digest + per-datagram summary), every delivered payload digest and the window bases are compared",
]
ASSUMPTIONS = ["NoAlias: a frame delayed by the network for 2^32 frame ids / 2^20 packet ids is indistinguishable by construction; the generator delays frames by at most a few hundred ticks",
               "corruption is 1-4 flipped bits per frame (what the CRC guarantees to catch, C16)"]
RULE = ("two real HalfConnections, send histories over up to 64 channels x 4 modes x sizes around the fragment boundaries, per-frame fates in both directions (drop, duplicate, "
        "delay/reorder, 1-4 bit flips), initial packet/frame ids at 0, random and within one window of 2^20 / 2^32, windows 4/16/64/4096 cycled many times, long runs of packets "
        "behind an unacknowledged Reliable packet (parent leads crossing the 127/128 and 255/256 header thresholds); oracle: per channel the delivered payloads are a duplicate-free "
        "subsequence of the submitted ones. Non-trivial: >= 5 packets delivered under at least one fault. Round-6 family: two hand-overs of one channel during a stall of the other, around a lost Persistent packet, resends in a planned order. Round-7 stream pending_sends (real Client / Server): three to eight packets submitted before the handshake completes, more afterwards; per-channel order of the Receive events of the server.")

def long_lead_scenario(r, it):
    """A Reliable packet on channel c is lost again and again while small packets follow it, so that the parent leads in
    the datagram headers pass the encoding thresholds (window parent lead 127/128, channel parent lead 255/256): exactly
    T-1 packets on other channels, then one on channel c (channel lead = T). For the channel-lead thresholds other
    channels carry Reliable packets too, so that the window parent lead stays small."""
    cfg = pick_cfg(r); cfg["pw"] = 4096; cfg["fw"] = 4096; cfg["bwA"] = cfg["bwB"] = 20_000_000
    sim = Sim(r, cfg, inter=it)
    ok = Net(latency=r.pick([0, 2_000_000]), reorder=r.pick([0, 200]), jitter=r.pick([0, 1_000_000]))
    c = r.below(4)
    rel = sim.send("A", c, 3, 10)
    T = r.pick([127, 128, 128, 129, 255, 256, 256, 257, r.range(100, 300)])
    state = {"hold": True}
    def fate(sim, ep, idx, f, rel=rel, state=state):
        if ep == "A" and f["kind"] == "D" and state["hold"] and any(d["dfnv"] == rel.frag_fnv[0] and d["dlen"] == 10 for d in f["dgs"]):
            return []
        return None
    sim.fate_fn = fate
    sim.run(1, 5_000_000, Net(loss=1000), ok)                        # the Reliable packet's frame is lost
    others = [x for x in range(4) if x != c]
    sent = [0]
    def tr(sim, ep):
        if ep != "A":
            return
        for _ in range(r.range(1, 6)):
            if sent[0] < T - 1:
                rel_other = T > 200 and sent[0] % 40 == 39
                sim.send("A", r.pick(others), 3 if rel_other else r.pick([1, 1, 2]), r.range(3, 60))   # no TimeSensitive here: every packet must consume an id
                sent[0] += 1
            elif sent[0] == T - 1:
                sim.send("A", c, r.pick([1, 1, 2]), r.range(3, 60)); sent[0] += 1          # channel lead = T
            elif sent[0] < T + 40:
                sim.send("A", r.below(4), r.pick([1, 1, 2, 0]), r.range(3, 60)); sent[0] += 1
    link = Net(loss=r.pick([0, 100]), reorder=r.pick([0, 300]), jitter=r.pick([0, 3_000_000]))
    for _ in range(200):
        sim.run(1, 5_000_000, link, ok, tr)
        if sim.dead or sent[0] >= T + 10:
            break
    sim.run(3, 5_000_000, link, ok, tr)
    state["hold"] = False
    sim.run(20, 5_000_000, link, ok, tr)
    sim.fate_fn = None
    sim.meta = {"cfg": cfg, "T": T}
    return sim

def streams(rng, tier, ctx):
    n = 24 if tier == "quick" else 500
    it = Interactive("hc")
    cases = []; meta = {}
    try:
        for i in range(n):
            r = rng.fork()
            it.op("=== gen%d" % i)
            if i % 4 == 1:
                # window tail first: the packet window is filled exactly (Reliable packets at its base, whose first
                # copies are lost, then Unreliable / Persistent ones on another channel); the frame with the LAST id of the
                # window arrives first, earlier ones never or - being Persistent - as resends in later frames (a frame
                # older than the newest one seen is discarded by the frame window, so lateness only arises through resends)
                cfg = pick_cfg(r); W = r.pick([4, 8, 16]); cfg["pw"] = W; cfg["fw"] = r.pick([64, 4096])
                cfg["bwA"] = cfg["bwB"] = 20_000_000; cfg["allocA"] = cfg["allocB"] = 1_000_000
                sim = Sim(r, cfg, inter=it)
                ok = Net(latency=r.pick([0, 1_000_000]))
                # warm-up: slow start has to open far enough for a whole window of frames to leave in one flush
                def warm(sim, ep):
                    if ep == "A":
                        for _ in range(r.range(1, 3)):
                            sim.send("A", r.below(2), r.pick([3, 1]), 1000)
                sim.run(r.range(100, 140), 5_000_000, ok, ok, warm)
                for _ in range(120):
                    sim.run(1, 5_000_000, ok, ok)
                    pa = sim.probe("A")
                    if sim.dead or pa is None or (pa["ps"][0] == pa["ps"][1] and sim.quiescent()):     # send window empty again
                        break
                m = r.pick([2, 2, 3])
                pk = []
                for k in range(W):
                    pk.append(sim.send("A", 1 if k < m else 0, 3 if k < m else r.pick([1, 2, 2]), r.range(1000, 1400)))
                index = dict((p.frag_fnv[0], k) for k, p in enumerate(pk))
                seen = set()
                again = dict((k, r.pick([2, 3, 3])) for k in range(1, m))      # later Reliable ones: resends lost too
                for k in range(m, W - 1):
                    if pk[k].mode == 2:
                        again[k] = r.pick([0, 1, 1])                        # Persistent ones come back with their first or second resend
                def fate(sim, ep, idx, f, W=W, m=m, again=again, seen=seen, index=index):
                    if ep != "A" or f["kind"] != "D":
                        return None
                    ks = [index[d["dfnv"]] for d in f["dgs"] if d["dfnv"] in index]
                    if not ks:
                        return None
                    k = ks[0]
                    if k in seen:                                   # a resend
                        if again.get(k, 0) > 0:
                            again[k] -= 1
                            return []
                        return None
                    seen.add(k)
                    if k < m: return []                                                        # Reliable at the base: first copy lost
                    if k == W - 1: return [0]                                                  # the tail arrives at once
                    return r.pick([[], [r.range(20, 150) * 1_000_000], [r.range(20, 150) * 1_000_000]])
                sim.fate_fn = fate
                sim.run(r.range(60, 120), 5_000_000, ok, ok)
                sim.fate_fn = None
                sim.meta = {"cfg": cfg}
            elif i % 4 == 3:
                sim = long_lead_scenario(r, it)
            elif i % 8 == 2:
                # two hand-overs during one stall: Reliable packets on channel a are lost at first (the window stalls at the first of
                # them), meanwhile channel b delivers twice - before and after a lost Persistent packet of channel b that lies
                # beyond a second missing Reliable packet. The resends then arrive in the order: first Reliable, the Persistent one,
                # second Reliable - the Persistent packet is late for its channel and must not be delivered after its successor.
                cfg = pick_cfg(r); cfg["pw"] = r.pick([16, 64, 4096]); cfg["fw"] = r.pick([64, 4096])
                cfg["bwA"] = cfg["bwB"] = 20_000_000; cfg["allocA"] = cfg["allocB"] = 1_000_000
                sim = Sim(r, cfg, inter=it)
                ok = Net(latency=r.pick([0, 1_000_000]))
                def warm2(sim, ep):
                    if ep == "A" and sim.tick < 100:
                        for _ in range(3):
                            sim.send("A", 2, 1, 1000)
                sim.run(130, 5_000_000, ok, ok, warm2)
                for _ in range(120):
                    sim.run(1, 5_000_000, ok, ok)
                    pa = sim.probe("A")
                    if sim.dead or pa is None or (pa["ps"][0] == pa["ps"][1] and sim.quiescent()):
                        break
                a, b = r.pick([(1, 0), (0, 1), (3, 0)])
                sz = lambda: r.range(900, 1400)
                plan = [(a, 3, "lost", 0)]                                  # (channel, mode, fate of the first copy, delay of the resend)
                plan += [(b, r.pick([1, 1, 3]), "ok", 0) for _ in range(r.range(1, 2))]
                first = len(plan)
                plan += [(a, 3, "lost", r.pick([60, 80, 120]) * 1_000_000)]
                plan += [(b, 2, "lost", r.pick([10, 20, 30]) * 1_000_000)]
                plan += [(b, r.pick([1, 1, 3]), "ok", 0) for _ in range(r.range(1, 2))]
                pk = []
                index = {}
                seen = set()
                def fate2(sim, ep, idx, f, plan=plan, seen=seen, index=index):
                    if ep != "A" or f["kind"] != "D":
                        return None
                    ks = [index[d["dfnv"]] for d in f["dgs"] if d["dfnv"] in index]
                    if not ks:
                        return None
                    k = ks[0]
                    if k in seen:
                        return [plan[k][3]]
                    seen.add(k)
                    return [] if plan[k][2] == "lost" else [0]
                sim.fate_fn = fate2
                for k, (ch, mode, _, _) in enumerate(plan):
                    if k == first:
                        sim.run(r.range(2, 4), 5_000_000, ok, ok)       # channel b hands over what it has; then the second batch
                    pk.append(sim.send("A", ch, mode, sz()))
                    index[pk[-1].frag_fnv[0]] = k
                sim.run(r.range(300, 500), 5_000_000, ok, ok)
                sim.fate_fn = None
                sim.meta = {"cfg": cfg}
            elif i % 8 == 4:
                # fragment bookkeeping: packets of 3..6 fragments whose last fragment is lost at first, while fragment 0 arrives twice,
                # the second copy after later fragments have been written (order 0, 1, 0, 2, ...): nothing may be delivered before
                # the resend brings the missing fragment, and then the submitted bytes exactly
                cfg = pick_cfg(r); cfg["bwA"] = cfg["bwB"] = 20_000_000; cfg["allocA"] = cfg["allocB"] = 1_000_000
                sim = Sim(r, cfg, inter=it)
                ok = Net(latency=1_000_000)
                lost_once = set()
                def fate(sim, ep, idx, f, lost_once=lost_once):
                    if ep != "A" or f["kind"] != "D" or len(f["dgs"]) != 1:
                        return None
                    d = f["dgs"][0]
                    if d["last"] < 2:
                        return None
                    if d["frag"] == d["last"] and (d["seq"], d["frag"]) not in lost_once:
                        lost_once.add((d["seq"], d["frag"])); return []
                    if d["frag"] == 0:
                        return [1_000_000, r.pick([25_000_000, 40_000_000, 60_000_000])]
                    return [1_000_000 + 10_000_000 * d["frag"]]
                sim.fate_fn = fate
                def tr(sim, ep):
                    if ep == "A" and sim.tick % 12 == 1 and sim.tick < 100:
                        sim.send("A", r.below(3), r.pick([3, 3, 2]), F * r.range(2, 5) + r.range(1, F))
                        if r.chance(1, 3):
                            sim.send("A", r.below(3), r.pick([1, 3]), r.range(10, 900))
                sim.run(r.range(120, 200), 5_000_000, ok, ok, tr)
                sim.fate_fn = None
                sim.meta = {"cfg": cfg}
            else:
                sim = H.lossy_scenario(r, it, tier, small_volume=False, chans=r.pick([4, 4, 64]))
            H.finish(sim, drain=True, max_ticks=300)
            cid = "c%d" % i
            cases.append((cid, sim.ops)); meta[cid] = sim
    finally:
        it.close()
    out = [{"name": "lossy", "mode": "hc", "cases": cases, "meta": meta, "case_timeout": 120}]
    out.append(pending_sends_stream(rng, tier))
    return out

def pending_sends_stream(rng, tier):
    """Round-7 family (change C01-g): a real Client submits three to eight packets, several on one channel, BEFORE its handshake has
    completed (Client::send queues them, the SYN-ACK handler hands the queue to the new half connection), then more afterwards;
    the real Server's Receive events must keep the per-channel submission order. Loss-free links, so nothing else can reorder."""
    from gen_ep import EpSim, DEFAULT_EP
    it = Interactive("ep")
    cases = []; meta = {}
    try:
        for k in range(6 if tier == "quick" else 80):
            r = rng.fork()
            it.op("=== ps%d" % k)
            sim = EpSim(r, inter=it)
            sim.srv(8, 8, 1, dict(DEFAULT_EP))
            lat = r.pick([0, 5_000_000, 40_000_000])
            nets = {"c2s": Net(latency=lat), "s2c": Net(latency=lat)}
            sim.cli(0, dict(DEFAULT_EP), nets)
            for _ in range(r.range(3, 8)):
                sim.send("c", 0, r.pick([0, 0, 0, 1]), r.pick([3, 3, 2, 1]), r.pick([1, 10, 100, 1448, 3000]))
            late = r.range(0, 4)
            def actions(sim):
                if sim.tick in (1, 2, 3, 10, 20) and r.chance(1, 2):
                    for _ in range(r.range(1, 3)):
                        sim.send("c", 0, r.pick([0, 0, 1]), r.pick([3, 2, 1]), r.pick([1, 50, 1448, 2000]))
            sim.run(r.range(60, 150), 20_000_000, nets, actions)
            cases.append(("p%d" % k, sim.ops)); meta["p%d" % k] = sim
    finally:
        it.close()
    return {"name": "pending_sends", "mode": "ep", "cases": cases, "meta": meta, "case_timeout": 60}

def ep_order_failures(stream, cid, ops, outs):
    from props import ep_common as E
    fails = E.trap_failures(ops, outs)
    sim = stream["meta"][cid]
    sev, cev, log, delivered, calls = E.replay(ops, outs)
    sent = sim.sent.get(("c", 0), [])
    by_digest = {}
    for p in sent:
        by_digest.setdefault(p.digest, []).append(p)
    last = {}; seen = set()
    for (t, tag, peer, x) in sev:
        if tag != "R" or peer != 0:
            continue
        cand = by_digest.get(x)
        if not cand:
            fails.append({"oracle": "exact", "detail": "server delivered a packet (%s) at %d ms that the client never submitted" % (x, t // 10**6), "signature": {"oracle": "exact"}})
            break
        p = next((q for q in cand if q.idx not in seen), None)
        if p is None:
            fails.append({"oracle": "at_most_once", "detail": "packet #%d delivered again at %d ms" % (cand[0].idx, t // 10**6), "signature": {"oracle": "at_most_once"}})
            break
        seen.add(p.idx)
        if p.chan in last and last[p.chan] > p.idx:
            fails.append({"oracle": "in_order", "detail": "channel %d: packet #%d (submitted %s the handshake completed) delivered at %d ms after packet #%d" %
                          (p.chan, p.idx, "before" if p.tick == 0 else "around/after", t // 10**6, last[p.chan]), "signature": {"oracle": "in_order", "family": "pending_sends"}})
            break
        last[p.chan] = p.idx
    return fails

def signature(ops, outs):
    if any(op.startswith("srv ") for op in ops[:4]):
        nr = sum(o.split("|")[0].count(" R") for op, o in zip(ops, outs) if op == "sstep" and o.startswith("ev"))
        return None if nr < 3 else ("pending_sends", ops[2][:30], min(nr, 12))
    nd = sum(int(o.split(" ")[0]) for op, o in zip(ops, outs) if op.endswith(" recv") and o and o[0].isdigit())
    faults = sum(1 for op in ops if op.startswith("fwd ") and len(op.split(" ")) > 4)
    if nd < 5:
        return None
    return (ops[1][:60], min(nd // 10, 9), min(faults, 5))

def channel_order_failures(sim, delivered):
    fails = []
    for ep in ("A", "B"):
        src = sim.other(ep)
        by_digest = {}
        for p in sim.sent[src]:
            by_digest.setdefault(p.digest, []).append(p)
        last_idx = {}      # channel -> index (in submission order) of the last delivered packet
        seen = set()
        for (t, d) in delivered.get(ep, []):
            cands = by_digest.get(d)
            if not cands:
                fails.append({"oracle": "byte_exact", "detail": "%s received %s which %s never submitted" % (ep, d, src), "signature": {"oracle": "byte_exact"}})
                return fails
            # payloads are unique with overwhelming probability; identical digests (e.g. empty payloads) are matched greedily per channel
            p = next((c for c in cands if c.idx not in seen), None)
            if p is None:
                fails.append({"oracle": "at_most_once", "detail": "%s received %s more often than it was submitted" % (ep, d), "signature": {"oracle": "at_most_once"}})
                return fails
            seen.add(p.idx)
            if p.chan in last_idx and p.idx < last_idx[p.chan]:
                fails.append({"oracle": "in_order", "detail": "%s: channel %d packet #%d delivered after packet #%d" % (ep, p.chan, p.idx, last_idx[p.chan]),
                              "signature": {"oracle": "in_order"}})
                return fails
            last_idx[p.chan] = p.idx
    return fails

def oracle(stream, cid, ops, outs):
    if stream["mode"] == "ep":
        return ep_order_failures(stream, cid, ops, outs)
    fails = H.trap_failures(ops, outs)
    sim = stream["meta"][cid]
    delivered, frames, probes, gets = H.replay_outputs(ops, outs)
    fails += channel_order_failures(sim, delivered)
    return fails
