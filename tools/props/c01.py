"""C01 — per-channel delivery is in order, at most once, and byte-exact."""
import vlib
from checkflow import Interactive
from props import hc_common as H
from gen_hc import Sim, Net, pick_cfg, random_traffic, pick_len

PROP = "C01"
LAKE_TARGETS = ["Uflow.Props.C01", "uflow_driver"]
TRUSTED_BASE = [
    "Lean 4.33 kernel; axioms per theorem under coverage.axioms",
    "tools/extract_consts.py",
    "hand-written models (Codec, PSend, PRecv, FrameQ, HalfConn) tied to two real HalfConnections by the hc correspondence streams: every emitted frame (digest + per-datagram summary), every delivered payload digest and the window bases are compared",
]
ASSUMPTIONS = ["NoAlias: a frame delayed by the network for 2^32 frame ids / 2^20 packet ids is indistinguishable by construction; the generator delays frames by at most a few hundred ticks",
               "corruption is 1-4 flipped bits per frame (what the CRC guarantees to catch, C16)"]
RULE = ("two real HalfConnections, send histories over up to 64 channels x 4 modes x sizes around the fragment boundaries, per-frame fates in both directions (drop, duplicate, "
        "delay/reorder, 1-4 bit flips), initial packet/frame ids at 0, random and within one window of 2^20 / 2^32, windows 4/16/64/4096 cycled many times, long runs of packets "
        "behind an unacknowledged Reliable packet (parent leads crossing the 127/128 and 255/256 header thresholds); oracle: per channel the delivered payloads are a duplicate-free "
        "subsequence of the submitted ones. Non-trivial: >= 5 packets delivered under at least one fault.")

def streams(rng, tier, ctx):
    n = 24 if tier == "quick" else 500
    it = Interactive("hc")
    cases = []; meta = {}
    try:
        for i in range(n):
            r = rng.fork()
            it.op("=== gen%d" % i)
            if i % 4 == 3:
                # long lead: a Reliable packet is lost repeatedly while 100..300 small packets follow it
                cfg = pick_cfg(r); cfg["pw"] = 4096; cfg["fw"] = 4096; cfg["bwA"] = cfg["bwB"] = 20_000_000
                sim = Sim(r, cfg, inter=it)
                first = [True]
                class DropFirst(Net):
                    pass
                lost = Net(loss=1000); ok = Net(latency=r.pick([0, 2_000_000]), reorder=r.pick([0, 200]), jitter=r.pick([0, 1_000_000]))
                sim.send("A", r.below(4), 3, 10)
                sim.run(1, 5_000_000, lost, ok)                        # the Reliable packet's frame is lost
                total = r.range(100, 300)
                def tr(sim, ep):
                    if ep == "A" and len(sim.sent["A"]) < total:
                        for _ in range(r.range(1, 6)):
                            sim.send("A", r.below(4), r.pick([1, 1, 2, 0]), r.range(3, 60))
                sim.run(80, 5_000_000, Net(loss=r.pick([0, 100]), reorder=300, jitter=3_000_000), ok, tr)
                sim.meta = {"cfg": cfg}
            else:
                sim = H.lossy_scenario(r, it, tier, small_volume=False, chans=r.pick([4, 4, 64]))
            H.finish(sim, drain=True, max_ticks=300)
            cid = "c%d" % i
            cases.append((cid, sim.ops)); meta[cid] = sim
    finally:
        it.close()
    return [{"name": "lossy", "mode": "hc", "cases": cases, "meta": meta, "case_timeout": 120}]

def signature(ops, outs):
    nd = sum(int(o.split(" ")[0]) for op, o in zip(ops, outs) if op.endswith(" recv") and o and o[0].isdigit())
    faults = sum(1 for op in ops if op.startswith("fwd ") and len(op.split(" ")) > 4)
    if nd < 5:
        return None
    return (ops[1][:60], min(nd // 10, 9), min(faults, 5))

def channel_order_failures(sim, delivered):
    fails = []
    for ep in ("A", "B"):
        src = sim.other(ep)
        by_digest = {}
        for p in sim.sent[src]:
            by_digest.setdefault(p.digest, []).append(p)
        last_idx = {}      # channel -> index (in submission order) of the last delivered packet
        seen = set()
        for (t, d) in delivered.get(ep, []):
            cands = by_digest.get(d)
            if not cands:
                fails.append({"oracle": "byte_exact", "detail": "%s received %s which %s never submitted" % (ep, d, src), "signature": {"oracle": "byte_exact"}})
                return fails
            # payloads are unique with overwhelming probability; identical digests (e.g. empty payloads) are matched greedily per channel
            p = next((c for c in cands if c.idx not in seen), None)
            if p is None:
                fails.append({"oracle": "at_most_once", "detail": "%s received %s more often than it was submitted" % (ep, d), "signature": {"oracle": "at_most_once"}})
                return fails
            seen.add(p.idx)
            if p.chan in last_idx and p.idx < last_idx[p.chan]:
                fails.append({"oracle": "in_order", "detail": "%s: channel %d packet #%d delivered after packet #%d" % (ep, p.chan, p.idx, last_idx[p.chan]),
                              "signature": {"oracle": "in_order"}})
                return fails
            last_idx[p.chan] = p.idx
    return fails

def oracle(stream, cid, ops, outs):
    fails = H.trap_failures(ops, outs)
    sim = stream["meta"][cid]
    delivered, frames, probes, gets = H.replay_outputs(ops, outs)
    fails += channel_order_failures(sim, delivered)
    return fails
