"""C19 — heap discipline: matching deallocations, no leaks on teardown."""
import vlib
from checkflow import Interactive
from props import hc_common as H
from props import ep_common as E
from gen_hc import Sim, Net, pick_cfg, pick_len, F

PROP = "C19"
LAKE_TARGETS = ["Uflow.Props.C19", "uflow_driver"]
TRUSTED_BASE = [
    "Lean 4.33 kernel; axioms per theorem under coverage.axioms",
    "tools/extract_consts.py (MAX_FRAGMENT_SIZE)",
    "Model/Heap.lean: the allocator's view of FragmentBuffer::new / finalize (block size, slice length), written by hand; tied to the code by the checking global allocator of the "
    "harness (harness/src/heap.rs: layout recorded at alloc, compared at dealloc/realloc; live tracked bytes compared between identical sessions), whose verdict is compared with "
    "the model's ledger on every run",
    "everything outside `unsafe` is safe Rust: the compiler pairs each deallocation with its allocation's layout (Rust's guarantee, not re-verified); std's Rc/Weak/Vec/VecDeque/BinaryHeap are trusted",
]
ASSUMPTIONS = ["leaks are detected as growth of the live tracked bytes from one complete session (all endpoints dropped) to the next identical one in the same process; a one-off allocation "
               "that is never released but does not repeat (lazy statics of std) is not counted",
               "`unsafe impl Send/Sync for HalfConnection` cannot be exercised by a single-threaded model or harness: not decided here (see PARTIAL)"]
PARTIAL = ["the `unsafe impl Send / Sync` assertions (mod.rs:435-439) are outside what an executable model can express; the Rc/Weak graph is shown leak-free only on the generated sessions (no theorem)"]
RULE = ("sessions of two half connections (mode hc) and of real Client/Server endpoints (mode ep) with packets of every size class (single fragment, exact multiples of 1448, "
        "k*1448+-1, up to 64 kB), all modes, loss/duplication/reordering, sessions cut off at an arbitrary point (packets partly assembled, unacknowledged, queued), window "
        "advanced over partial packets, disconnects and drops; each session is run three times in one process under the checking allocator; oracle: no dealloc/realloc with a "
        "layout other than the recorded one, and no growth of live bytes from the second to the third session. Non-trivial: a multi-fragment packet whose length is not a multiple of "
        "1448 was delivered. Distinct by (mode, sizes, cut point).")

def wrap(ops):
    body = [o for o in ops if not o.startswith("===")]
    return ["heap on"] + body + ["reset", "heap live"] + body + ["reset", "heap live"] + body + ["reset", "heap live"]

def streams(rng, tier, ctx):
    n = 10 if tier == "quick" else 150
    it = Interactive("hc")
    cases = []; meta = {}
    try:
        for i in range(n):
            r = rng.fork()
            it.op("=== gen%d" % i)
            cfg = pick_cfg(r)
            cfg["allocA"] = cfg["allocB"] = r.pick([200_000, 1_000_000])
            cfg["bwA"] = cfg["bwB"] = r.pick([20_000_000, 2_000_000, 300_000])
            sim = Sim(r, cfg, inter=it)
            net = Net(loss=r.pick([0, 100, 300]), dup=r.pick([0, 100]), jitter=r.pick([0, 2_000_000]), latency=r.pick([0, 5_000_000]), reorder=r.pick([0, 200]))
            back = Net(loss=r.pick([0, 100]), latency=net.latency)
            def traffic(sim, ep):
                if r.chance(1, 2):
                    k = r.range(1, 6)
                    ln = r.pick([k * F, k * F + 1, k * F - 1, k * F + r.range(2, F - 2), r.range(1, 200), r.range(F + 1, 65000)])
                    sim.send(ep, r.below(3), r.pick([0, 1, 2, 3, 3]), ln)
            sim.run(r.range(10, 80), r.pick([1_000_000, 10_000_000, 40_000_000]), net, back, traffic)
            if r.chance(1, 2):
                H.finish(sim, drain=True, max_ticks=200)          # otherwise: cut off mid-transfer
            cid = "h%d" % i
            cases.append((cid, wrap(sim.ops))); meta[cid] = sim
        # a peer that violates the parent-lead rules: a complete packet that can never be delivered (it claims a channel parent
        # that does not exist) is passed by the receive window, and its window slot is used again one window later - the payload
        # of the skipped packet must be released like any other
        codec = Interactive("codec")
        try:
            for i in range(3 if tier == "quick" else 40):
                r = rng.fork()
                it.op("=== genx%d" % i)
                cfg = pick_cfg(r); W = r.pick([4, 4, 8]); cfg["pw"] = W
                cfg["allocA"] = cfg["allocB"] = 1_000_000
                sim = Sim(r, cfg, inter=it)
                sim.tick += 1; sim.set_time(5_000_000)
                pr = sim.probe("B")
                pb = int(pr["pr"][0]); fb = int(pr["aq"][0])
                ca, cb = r.pick([(1, 0), (0, 2), (3, 1)])
                fid = [fb]
                def inject(seq, chan, wpl, cpl, ln):
                    txt = "data %d 0 1 %d %d %d %d 0 0 %s" % (fid[0] & 0xFFFFFFFF, (pb + seq) & 0xFFFFF, chan, wpl, cpl, "@%d:%d" % (700 + seq + 50 * i, ln))
                    fid[0] += 1
                    hx = codec.op("enc " + txt)
                    if len(hx) > 20:
                        sim.op("B raw " + hx)
                rounds = r.range(1, 3)
                base = 0
                for _ in range(rounds):
                    inject(base + 0, ca, 0, 0, r.pick([10, 300]))
                    inject(base + 1, ca, 0, 0, r.pick([10, 300]))
                    inject(base + 2, cb, 1, 2, r.pick([1000, 1448, 100]))       # complete, but waits for a channel parent that never existed
                    sim.op("B step"); sim.op("B recv")
                    for k in range(3, W + 3):                                     # the next window's worth of packets reuses every slot
                        inject(base + k, ca, 0, 0, r.pick([10, 500]))
                        if r.chance(1, 2):
                            sim.op("B step"); sim.op("B recv")
                    sim.op("B step"); sim.op("B recv")
                    base += W + 3
                sim.op("B flush"); sim.probe("B")
                cid = "x%d" % i
                cases.append((cid, wrap(sim.ops))); meta[cid] = sim
        finally:
            codec.close()
    finally:
        it.close()
    out = [{"name": "hc_sessions", "mode": "hc", "cases": cases, "meta": meta, "case_timeout": 240}]
    ne = 6 if tier == "quick" else 80
    it = Interactive("ep")
    cases = []; meta = {}
    try:
        for i in range(ne):
            r = rng.fork()
            it.op("=== gen%d" % i)
            sim = E.general_scenario(r, it, tier, ticks=r.range(30, 90), dt_choices=(5_000_000, 50_000_000))
            cid = "e%d" % i
            cases.append((cid, wrap(sim.ops))); meta[cid] = sim
    finally:
        it.close()
    out.append({"name": "ep_sessions", "mode": "ep", "cases": cases, "meta": meta, "case_timeout": 240})
    return out

def signature(ops, outs):
    lens = []
    for op, o in zip(ops, outs):
        if op.endswith(" recv") and o and o[0].isdigit():
            lens += [int(d.split(":")[0]) for d in o.split(" ")[1:]]
        elif (op.startswith("sstep") or op.startswith("cstep")) and o.startswith("ev"):
            lens += [int(e.split(":")[1]) for e in o.split("|")[0].split()[1:] if e.startswith("R")]
    odd = [l for l in lens if l > F and l % F != 0]
    if not odd:
        return None
    return (ops[2][:50], len(ops) // 300, tuple(sorted(set(l // F for l in odd)))[:6])

def oracle(stream, cid, ops, outs):
    fails = (H.trap_failures if stream["mode"] == "hc" else E.trap_failures)(ops, outs)
    lives = [o for op, o in zip(ops, outs) if op == "heap live"]
    if len(lives) != 3 or not all(l.startswith("mism=") for l in lives):
        return fails
    vals = [dict(x.split("=") for x in l.split(" ")) for l in lives]
    if int(vals[-1]["mism"]) != 0:
        fails.append({"oracle": "layout_match", "detail": "%s block(s) released or resized with a layout other than the one they were allocated with (replay the script and add `heap info` for sizes)" % vals[-1]["mism"],
                      "signature": {"oracle": "layout_match"}})
    if int(vals[2]["grow"]) != 0:
        fails.append({"oracle": "no_leak", "detail": "live heap bytes grew by %s from the second to the third identical session although every endpoint was dropped (second vs first: %s)" %
                      (vals[2]["grow"], vals[1]["grow"]), "signature": {"oracle": "no_leak"}})
    return fails
