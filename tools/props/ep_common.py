"""Shared scenario families and oracles for the properties checked through mode `ep`
(real Server + Clients over loopback with harness relays)."""
import re
from checkflow import Interactive
from gen_ep import EpSim, DEFAULT_EP, ep_cfg_text, parse_report, parse_dgram
from gen_hc import Net, F

U32 = 0xFFFFFFFF

def cfg_variant(r, base=None):
    c = dict(base or DEFAULT_EP)
    how = r.weighted([("same", 6), ("smallalloc", 1), ("bigpkt", 1), ("rates", 2), ("timeouts", 2), ("noka", 1), ("asym", 2)])
    if how == "asym":
        # every limit different from every other one (a field put into the wrong slot of a handshake frame shows)
        c["maxpkt"] = r.pick([10_000, 100_000, 500_000]); c["alloc"] = r.pick([1_000_000, 1_500_000, 3_000_000])
        c["recv"] = r.pick([300_000, 1_234_567]); c["send"] = r.pick([400_000, 2_345_678])
    if how == "smallalloc":
        c["alloc"] = r.pick([1000, 100_000])          # may be below the peer's max_packet_size -> Config error
    elif how == "bigpkt":
        c["maxpkt"] = r.pick([2_000_000, 5_000_000]); c["alloc"] = max(c["alloc"], c["maxpkt"])
    elif how == "rates":
        c["send"] = r.pick([1472, 50_000, 2_000_000, 2**32 + 5000]); c["recv"] = r.pick([1472, 100_000, 2_000_000, 2**32 - 1])
    elif how == "timeouts":
        c["timeout"] = r.pick([1000, 3000, 8000, 20000]); c["kams"] = r.pick([500, 2500, 5000])
    elif how == "noka":
        c["ka"] = 0
    return c

def general_scenario(r, it, tier, n_clients=None, limits=None, dt_choices=(5_000_000, 50_000_000, 500_000_000), lossy=True, forge=False,
                     disconnects=True, hs_errors=1, ticks=None, srv_cfg=None, variants=True, traffic=True, codec=None, crossing=False):
    sim = EpSim(r, inter=it)
    n = n_clients or r.range(1, 4)
    max_total, max_active = limits or (r.pick([8, 8, 2, 3]), r.pick([1, 2, 4, 8]))
    scfg = srv_cfg or (cfg_variant(r) if variants else dict(DEFAULT_EP))
    sim.srv(max_total, max_active, hs_errors, scfg)
    lat = r.pick([0, 5_000_000, 40_000_000]) if not crossing else r.pick([40_000_000, 120_000_000])
    if lossy:
        nets = {"c2s": Net(loss=r.pick([0, 100, 300]), dup=r.pick([0, 100, 300]), latency=lat, jitter=r.pick([0, 3_000_000, 60_000_000]), reorder=r.pick([0, 200])),
                "s2c": Net(loss=r.pick([0, 100, 300]), dup=r.pick([0, 100, 300]), latency=lat, jitter=r.pick([0, 3_000_000]), reorder=r.pick([0, 200]))}
    else:
        nets = {"c2s": Net(latency=lat), "s2c": Net(latency=lat)}
    sim.nets = nets
    sim.n = n
    def actions(sim):
        for i in range(n):
            if i not in sim.clients:
                if r.chance(1, 3):
                    sim.cli(i, cfg_variant(r) if variants else dict(DEFAULT_EP), nets)
                continue
            if traffic and r.chance(1, 4):
                sim.send("c", i, r.below(3), r.pick([0, 1, 2, 3, 3]), r.range(3, 3000))
            if traffic and r.chance(1, 8):
                sim.send("s", i, r.below(3), r.pick([1, 3]), r.range(3, 3000))
            if disconnects and r.chance(1, 50 if not crossing else 15):
                sim.call(r.pick(["cdisc", "cdiscnow", "sdisc", "sdiscnow", "sdrop"]), i)
                if crossing or r.chance(1, 3):      # crossing: the other side too, before any frame travels
                    sim.call(r.pick(["cdisc", "cdiscnow", "sdisc", "sdiscnow"]), i)
            if forge and codec is not None and r.chance(1, 6):
                forge_handshake(sim, r, codec, i)
    dt = r.pick(list(dt_choices))
    sim.dt = dt
    sim.run(ticks or r.range(40, 140), dt, nets, actions)
    return sim

def nonces_of(sim, i):
    """nonces seen on the wire for peer i: client SYN nonces, server SYN-ACK (nonce_ack, nonce)."""
    syn = [int(d["f"][2]) for d in sim.log.get((i, "c2s"), []) if d["kind"] == "syn"]
    synack = [(int(d["f"][1]), int(d["f"][2])) for d in sim.log.get((i, "s2c"), []) if d["kind"] == "synack"]
    return syn, synack

def forge_handshake(sim, r, codec, i):
    """injects a handshake frame with a foreign / stale / replayed nonce at either endpoint of peer i."""
    syn, synack = nonces_of(sim, i)
    rnd = r.next() & U32
    kind = r.weighted([("syn", 3), ("synack", 3), ("hsack", 3), ("hserr", 2), ("syn_bad", 1)])
    if kind == "syn":
        nonce = r.pick([rnd] + syn[-1:])
        txt = "syn 3 %d 2000000 1000000 1000000" % nonce; dr = "c2s"
    elif kind == "syn_bad":
        txt = "syn %d %d 2000000 %d %d" % (r.pick([2, 4, 3]), rnd, r.pick([1000000, 5000000]), r.pick([1000000, 10])); dr = "c2s"
    elif kind == "synack":
        na = r.pick([rnd] + syn[-1:] + [x[0] for x in synack[-1:]])
        txt = "synack %d %d 2000000 1000000 1000000" % (na, r.pick([rnd, 7] + [x[1] for x in synack[-1:]])); dr = "s2c"
    elif kind == "hsack":
        na = r.pick([rnd, (rnd + 1) & U32] + [((x[1] + 1) & U32) for x in synack[-1:]] + [x[0] for x in synack[-1:]])
        txt = "hsack %d" % na; dr = "c2s"
    else:
        na = r.pick([rnd] + [((s + 1) & U32) for s in syn[-1:]])
        if syn and any(tag == "C" for (_, tag, _) in sim.cevents.get(i, [])) and r.chance(1, 2):
            na = syn[0]        # a stale / forged error frame carrying the client's OWN nonce, after the client has connected
        txt = "hserr %d %d" % (na, r.below(3)); dr = "s2c"
    hx = codec.op("enc " + txt)
    if len(hx) > 8:
        d = parse_dgram("%d:%s:%s" % (len(hx) // 2, "0" * 16, txt.replace(" ", "_")))
        d["forged"] = True
        sim.raw(dr, i, hx, d)

def parse_raw(hx):
    """fixed-layout handshake frames from raw hex (forged injections)."""
    b = bytes.fromhex(hx)
    be = lambda o: int.from_bytes(b[o:o + 4], "big")
    if len(b) == 1472 and b[0] == 0:
        return {"kind": "syn", "f": ["syn", str(b[1]), str(be(2)), str(be(6)), str(be(10)), str(be(14))], "len": len(b), "forged": True}
    if len(b) == 25 and b[0] == 1:
        return {"kind": "synack", "f": ["synack", str(be(1)), str(be(5)), str(be(9)), str(be(13)), str(be(17))], "len": len(b), "forged": True}
    if len(b) == 9 and b[0] == 2:
        return {"kind": "hsack", "f": ["hsack", str(be(1))], "len": len(b), "forged": True}
    if len(b) == 10 and b[0] == 3:
        return {"kind": "hserr", "f": ["hserr", str(be(1)), str(b[5])], "len": len(b), "forged": True}
    return {"kind": "raw", "len": len(b), "forged": True}

def trap_failures(ops, outs):
    for i, o in enumerate(outs):
        if o.startswith("trap") or o in ("hang", "abort"):
            op = ops[i] if i < len(ops) else "?"
            return [{"oracle": "no_trap", "detail": "op#%d `%s` -> %s" % (i, op[:160], o),
                     "signature": {"oracle": "no_trap", "kind": o, "at": op.split(" ")[0]}}]
    return []

def replay(ops, outs, timeline=None):
    """Re-derives, from an implementation run, per-peer event lists with virtual times and the datagram logs.
    `timeline` (a list, optional) receives the server-side happenings in OPERATION order (several operations share one
    virtual instant): (time, "C"/"D"/"E"/"R"/"drop"/"syn", peer)."""
    time = 0
    sev = []; cev = {}; log = {}; delivered = []; calls = []
    tl = timeline if timeline is not None else []
    for op, o in zip(ops, outs):
        t = op.split(" ")
        if t[0] == "t":
            time = int(t[1]); continue
        rep = None
        if t[0] == "sstep" and o.startswith("ev"):
            for e in o.split("|")[0].split()[1:]:
                m = re.match(r"^([CDRE])(\d+|\?)(?::(.*))?$", e)
                if m:
                    sev.append((time, m.group(1), int(m.group(2)) if m.group(2) != "?" else -1, m.group(3)))
                    tl.append((time, m.group(1), sev[-1][2]))
            rep = o.split("|", 1)[1]
        elif t[0] == "cstep" and o.startswith("ev"):
            i = int(t[1])
            for e in o.split("|")[0].split()[1:]:
                cev.setdefault(i, []).append((time, e[0], e[2:] if len(e) > 1 else None))
            rep = o.split("|", 1)[1]
        elif t[0] in ("sflush", "cflush") and o.startswith("ev"):
            rep = o.split("|", 1)[1]
        elif t[0] == "cli" and o.startswith("ok"):
            rep = o[2:]; calls.append((time, "connect", int(t[1])))
        elif t[0] == "recli" and o.startswith("ok"):
            # a new client object behind the same relay (same address for the server): its predecessor's events are kept apart
            i = int(t[1])
            if i in cev:
                cev["%d/%d" % (i, sum(1 for k in cev if str(k).startswith("%d/" % i)))] = cev.pop(i)
            rep = o[2:]; calls.append((time, "connect", i))
        elif t[0] in ("cdisc", "cdiscnow", "sdisc", "sdiscnow", "sdrop") and o == "ok":
            calls.append((time, t[0], int(t[1])))
            if t[0] == "sdrop":
                tl.append((time, "drop", int(t[1])))
        elif t[0] == "fwd" and o == "ok":
            d = log.get((int(t[2]), t[1]), [])
            idx = int(t[3])
            if idx < len(d):
                delivered.append((time, t[1], int(t[2]), d[idx]))
                if t[1] == "c2s" and d[idx].get("kind") == "syn":
                    tl.append((time, "syn", int(t[2])))
        elif t[0] == "raw" and o == "ok":
            delivered.append((time, t[1], int(t[2]), parse_raw(t[3])))
            if t[1] == "c2s" and delivered[-1][3].get("kind") == "syn":
                tl.append((time, "syn", int(t[2])))
        if rep:
            for (peer, dr, dgs) in parse_report(rep):
                lst = log.setdefault((peer, dr), [])
                for d in dgs:
                    d["time"] = time
                    lst.append(d)
    return sev, cev, log, delivered, calls
