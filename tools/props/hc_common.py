"""Shared scenario families and oracle helpers for the properties checked through mode `hc`."""
import gen_hc
from gen_hc import Sim, Net, pick_cfg, random_traffic, pick_len, MODES, F
from checkflow import Interactive

S20 = 1 << 20

def lossy_scenario(r, it, tier, small_volume=True, modes=(0, 1, 2, 3), cfg=None, chans=4, max_len=6000):
    cfg = cfg or pick_cfg(r)
    sim = Sim(r, cfg, inter=it)
    lat = r.pick([0, 1_000_000, 20_000_000, 150_000_000])
    netA = Net(loss=r.pick([0, 50, 200, 500]), dup=r.pick([0, 50, 200]), jitter=r.pick([0, 3_000_000, 40_000_000]), latency=lat,
               reorder=r.pick([0, 100, 300]), flip=r.pick([0, 30]))
    netB = Net(loss=r.pick([0, 50, 200, 500]), dup=r.pick([0, 50]), jitter=r.pick([0, 3_000_000]), latency=lat, reorder=r.pick([0, 100]))
    ticks = r.range(20, 90)
    dt = r.pick([250_000, 1_000_000, 5_000_000, 16_000_000, 100_000_000])
    eps = r.pick([("A",), ("A", "B"), ("A",)])
    sim.run(ticks, dt, netA, netB, random_traffic(r, rate_pm=r.pick([150, 400, 900]), until_tick=ticks * 3 // 4, modes=modes, chans=chans,
                                                  max_len=max_len if not small_volume else 3200, eps=eps), probe_every=5)
    sim.meta = {"netA": vars(netA), "netB": vars(netB), "ticks": ticks, "dt": dt, "cfg": cfg}
    return sim

def big_packet_scenario(r, it, modes=(3,)):
    """A packet of 33..70 fragments (so that fragment ids 32 apart exist inside one packet): the frames carrying one or two chosen
    fragments are lost on their first transmission while every other fragment - in particular the ones 32 and 64 ids away - arrives and
    is acknowledged; then the network is fair. The per-fragment acknowledgement bookkeeping of the sender decides what is re-sent."""
    cfg = pick_cfg(r); cfg["fw"] = 4096; cfg["pw"] = r.pick([16, 64, 4096]); cfg["bwA"] = cfg["bwB"] = 20_000_000
    cfg["allocA"] = cfg["allocB"] = 1_000_000
    sim = Sim(r, cfg, inter=it)
    lat = r.pick([0, 1_000_000, 10_000_000])
    nfr = r.range(33, 70)
    ln = nfr * F - r.pick([0, 1, 7, 700, F - 1])
    k = r.below(nfr)
    lost = {k}
    if r.chance(1, 3):
        lost.add(r.below(nfr))
    dropped = set()
    def fate(sim, ep, idx, f):
        if ep != "A" or f["kind"] != "D":
            return None
        hit = [d for d in f["dgs"] if d["last"] == nfr - 1 and d["frag"] in lost and (d["seq"], d["frag"]) not in dropped]
        if hit:
            for d in hit:
                dropped.add((d["seq"], d["frag"]))
            return []
        return None
    ok = Net(latency=lat)
    def warm(sim, ep):
        if ep == "A" and sim.tick < 100:               # slow start has to open so that the packet leaves within a few flushes
            for _ in range(4):
                sim.send("A", r.below(2), 1, F)
    sim.run(130, 5_000_000, ok, ok, warm)
    sim.fate_fn = fate
    ch = r.below(3)
    sim.send("A", ch, r.pick(list(modes)), ln)
    sim.send("A", ch, 3, r.pick([4, 50, 1448]))
    sim.run(r.range(80, 160), r.pick([5_000_000, 20_000_000, 50_000_000]), ok, ok, probe_every=1)
    sim.fate_fn = None
    sim.latency = lat
    sim.meta = {"cfg": cfg, "fragments": nfr, "lost": sorted(lost)}
    return sim

def count_full_scenario(r, it, modes=(3,)):
    """Round-7 family (change C02-g): 128..400 tiny packets of a resendable mode submitted in one tick with an open rate window, so that
    a data frame fills up by its datagram COUNT (127) long before its size limit and the next fragment spills into the following frame;
    that following frame is lost once while the count-full frame before it arrives and is acknowledged; then the network is fair."""
    cfg = pick_cfg(r); cfg["fw"] = 4096; cfg["pw"] = r.pick([4096, 4096, 1024]); cfg["bwA"] = cfg["bwB"] = 20_000_000
    cfg["allocA"] = cfg["allocB"] = 2_000_000
    sim = Sim(r, cfg, inter=it)
    lat = r.pick([0, 1_000_000, 10_000_000])
    ok = Net(latency=lat)
    def warm(sim, ep):
        if ep == "A" and sim.tick < 100:
            for _ in range(4):
                sim.send("A", r.below(2), 1, F)
    sim.run(130, 5_000_000, ok, ok, warm)
    state = {"prev_full": False, "dropped": 0}
    def fate(sim, ep, idx, f):
        if ep != "A" or f["kind"] != "D":
            return None
        full = len(f["dgs"]) >= 127
        hit = state["prev_full"] and state["dropped"] < 3
        state["prev_full"] = full
        if hit:
            state["dropped"] += 1
            return []
        return None
    sim.fate_fn = fate
    n = r.pick([200, 255, 300, 400, 600])
    # 2-byte payloads: with the 9-byte datagram header (parent leads above 127) a frame still fills by COUNT (10 + 127 * 11 <= 1472).
    # Packets are identified by their payload digest in the oracles, so the payloads of one case are made pairwise distinct by
    # skipping payload seeds whose two bytes were already used (false alarm #29: equal tiny payloads were matched to the wrong packet)
    ln = 2
    used = set(p.digest for p in sim.sent["A"])
    from gen_hc import gen_payload, digest
    for j in range(n):
        while digest(gen_payload(sim.next_seed, ln)) in used:
            sim.next_seed += 1
        used.add(digest(gen_payload(sim.next_seed, ln)))
        sim.send("A", r.below(3), r.pick(list(modes)), ln)
    sim.run(r.range(60, 120), r.pick([5_000_000, 20_000_000]), ok, ok, probe_every=1)
    sim.fate_fn = None
    sim.latency = lat
    sim.meta = {"cfg": cfg, "tiny": n}
    return sim

def rtt_drop_scenario(r, it):
    """Round-7 family (change C09-g): the RTT estimate falls while a Reliable fragment waits in its resend back-off. Warm-up over a slow
    link (one-way latency 250-400 ms), then a small Reliable packet X every transmission of which is lost until it has been sent three
    times (its fourth is scheduled 4 x the old RTT ahead); then the link is fast, a few other packets are sent and acknowledged at once
    (the estimate drops by 10 % per sample, the resend timeout with it), then the application is silent: the sync timer - max(RTO, 2 s)
    after the last data frame - fires BEFORE X's resend is due. The sync frame must not announce next_packet_id while X is unacknowledged:
    X has to be delivered, and is_send_pending() must not clear before it is."""
    cfg = pick_cfg(r); cfg["fw"] = 4096; cfg["pw"] = r.pick([64, 4096]); cfg["bwA"] = cfg["bwB"] = 2_000_000
    cfg["allocA"] = cfg["allocB"] = 1_000_000
    sim = Sim(r, cfg, inter=it)
    slow = Net(latency=r.pick([250_000_000, 300_000_000, 400_000_000]))
    fast = Net(latency=r.pick([0, 1_000_000, 5_000_000]))
    dt = 20_000_000
    def warm(sim, ep):
        if ep == "A" and sim.tick % 5 == 0:
            sim.send("A", 1, 1, 200)
    sim.run(250, dt, slow, slow, warm, probe_every=10)          # 5 s: a dozen RTT samples of 500-800 ms
    sim.run(60, dt, slow, slow, probe_every=10)                 # everything acknowledged
    state = {"x": 0}
    xlen = r.pick([5, 100, 700])
    sim.send("A", 0, 3, xlen)
    xdig = sim.sent["A"][-1].frag_fnv[0]
    def fate(sim, ep, idx, f):
        if ep != "A" or f["kind"] != "D":
            return None
        if any(d.get("dfnv") == xdig for d in f["dgs"]) and state["x"] < 3:
            state["x"] += 1
            return []
        return None
    sim.fate_fn = fate
    for _ in range(400):                                        # up to 8 s: sent at 0, +RTT, +3 RTT
        if state["x"] >= 3 or sim.dead:
            break
        sim.run(1, dt, slow, slow)
    # the link becomes fast; a handful of packets, acknowledged within a tick each
    for _ in range(r.range(6, 10)):
        sim.send("A", 1, 1, 100)
        sim.run(1, dt, fast, fast, probe_every=1)
    sim.run(r.range(150, 200), dt, fast, fast, probe_every=5)   # 3-4 s of silence: the sync timer fires, X's resend comes due
    sim.fate_fn = None
    sim.latency = fast.latency
    sim.meta = {"cfg": cfg, "x_transmissions_lost": state["x"]}
    return sim

def finish(sim, drain=True, max_ticks=700):
    ok = None
    if drain:
        ok = sim.drain(max_ticks=max_ticks * 4, dt_ns=20_000_000)
        for ep in sim.eps:
            sim.probe(ep); sim.get(ep)
    sim.drained = ok
    return sim

def case_of(sim, cid):
    return (cid, sim.ops)

def trap_failures(ops, outs, oracle="no_trap"):
    fails = []
    for i, o in enumerate(outs):
        if o.startswith("trap") or o in ("hang", "abort"):
            op = ops[i] if i < len(ops) else "?"
            fails.append({"oracle": oracle, "detail": "op#%d `%s` -> %s" % (i, op[:160], o),
                          "signature": {"oracle": oracle, "kind": o, "op": op.split(" ")[1] if len(op.split(" ")) > 1 and op[0] in "AB" else op.split(" ")[0]}})
            break
    return fails

def replay_outputs(sim_like_ops, outs):
    """Re-derives delivered / frames / probes from (ops, outs) of an implementation run."""
    delivered = {}; frames = {}; probes = {}; gets = {}; time = 0; tick = 0
    for op, o in zip(sim_like_ops, outs):
        t = op.split(" ")
        if t[0] == "t":
            time = int(t[1]); tick += 1; continue
        if len(t) < 2:
            continue
        ep = t[0]
        if t[1] == "recv" and o and o[0].isdigit():
            for d in o.split(" ")[1:]:
                delivered.setdefault(ep, []).append((time, d))
        elif t[1] == "flush" and o and o[0].isdigit():
            for f in gen_hc.parse_frames(o):
                f["time"] = time
                frames.setdefault(ep, []).append(f)
        elif t[1] == "probe" and o.startswith("fa="):
            p = gen_hc.parse_probe(o); p["_time"] = time
            probes.setdefault(ep, []).append(p)
        elif t[1] == "get" and o.startswith("sbs="):
            d = dict(x.split("=") for x in o.split(" ")); d["_time"] = time
            gets.setdefault(ep, []).append(d)
    return delivered, frames, probes, gets

def subsequence_check(sent_digests, delivered_digests):
    """Greedy check that `delivered` is a subsequence of `sent`; returns index of first offender or None."""
    j = 0
    for i, d in enumerate(delivered_digests):
        while j < len(sent_digests) and sent_digests[j] != d:
            j += 1
        if j == len(sent_digests):
            return i
        j += 1
    return None

def sig_of(sim):
    """distinct / non-trivial signature of a scenario: window sizes, fate mix, volume bucket, what happened."""
    fr = sum(len(v) for v in sim.frames.values())
    dl = sum(len(v) for v in sim.delivered.values())
    if dl == 0 and fr == 0:
        return None
    fates = set()
    for ep in sim.frames:
        for f in sim.frames[ep]:
            fates.add(f.get("fate", "?").split("+")[0][:4])
    kinds = set(f["kind"] for ep in sim.frames for f in sim.frames[ep])
    return (sim.cfg["fw"], sim.cfg["pw"], "".join(sorted(kinds)), ",".join(sorted(fates)), min(fr // 20, 6), min(dl // 10, 6),
            sim.cfg["pbA"] > S20 - 8200, sim.cfg["fbA"] > 2**32 - 8200)


def tail_progress(ops, outs, window_s=300):
    """Did the connection still make progress during the last `window_s` virtual seconds of the run? Progress = a packet handed to
    an application, or a fragment put on the wire that had never been sent before, or a send-window base that moved. Used to tell
    a connection that is slow (TFRC backed off towards its 23 B/s floor: one frame per 64 s) from one that is stalled."""
    times = []; t = 0
    for op in ops:
        if op.startswith("t "):
            t = int(op.split(" ")[1])
        times.append(t)
    if not times:
        return False
    t_end = times[-1]; t0 = t_end - window_s * 10**9
    seen = set(); bases = {}
    progress = False
    for op, o, tt in zip(ops, outs, times):
        w = op.split(" ")
        if len(w) < 2:
            continue
        late = tt > t0
        if w[1] == "recv" and o and o[0].isdigit() and int(o.split(" ")[0]) > 0 and late:
            progress = True
        elif w[1] == "flush" and o and o[0].isdigit():
            for f in gen_hc.parse_frames(o):
                if f["kind"] == "D":
                    for d in f["dgs"]:
                        key = (w[0], d["seq"], d["frag"], d.get("dfnv"))
                        if key not in seen:
                            seen.add(key)
                            if late:
                                progress = True
        elif w[1] == "probe" and o.startswith("fa="):
            p = gen_hc.parse_probe(o)
            b = p["ps"][0]
            if w[0] in bases and bases[w[0]] != b and late:
                progress = True
            bases[w[0]] = b
    return progress
