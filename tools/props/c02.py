"""C02 — Reliable packets are never skipped and are eventually delivered."""
import vlib
from checkflow import Interactive
from props import hc_common as H
from props import c01
from gen_hc import Sim, Net, pick_cfg, random_traffic, pick_len

PROP = "C02"
LAKE_TARGETS = ["Uflow.Props.C02", "Uflow.Props.C02Recv", "Uflow.Props.C02Live", "Uflow.Props.C02Prog", "uflow_driver"]
PROPS_FILES = ["C02", "C02Recv", "C02Live", "C02Prog"]
TRUSTED_BASE = c01.TRUSTED_BASE
ASSUMPTIONS = ["'bounded time' is judged with a generous virtual-time budget (TFRC may have backed off to its 23 B/s floor, see the known finding on C11); volumes are kept small accordingly",
               "liveness through the real rate controller is not a theorem (DESIGN 6/C02): it is checked on every generated fair suffix"]
RULE = ("send histories mixing the four modes, an arbitrary finite fault prefix (loss/dup/reorder of data, ack and sync frames in both directions, pauses), then a fair loss-free "
        "suffix until quiescence; all window sizes and initial ids. Oracle: on each channel no packet is delivered while an earlier Reliable packet of that channel is undelivered; "
        "at quiescence every Reliable packet was delivered exactly once, is_send_pending() is false and send_buffer_size() is 0; quiescence is reached within the budget. "
        "Non-trivial: a Reliable packet had to be resent. Distinct by (windows, faults, volume). Round-6 family: a Reliable packet of 33-70 fragments, single fragments lost on first transmission. Round-7 families: frames filled by datagram count (128-400 tiny Reliable packets in one tick, the spill-over frame lost); RTT estimate falling while a Reliable fragment is in its resend back-off (the sync timer fires before the resend is due).")

def streams(rng, tier, ctx):
    n = 24 if tier == "quick" else 500
    it = Interactive("hc")
    cases = []; meta = {}
    try:
        for i in range(n):
            r = rng.fork()
            it.op("=== gen%d" % i)
            if i % 4 == 3:
                sim = c01.long_lead_scenario(r, it)
            elif i % 8 == 2:
                sim = H.big_packet_scenario(r, it, modes=(3,))
            elif i % 8 == 0:
                sim = H.count_full_scenario(r, it, modes=(3,)) if i % 16 == 0 else H.rtt_drop_scenario(r, it)
            elif i % 8 == 4:
                sim = H.count_full_scenario(r, it, modes=(3, 3, 2))
            elif i % 8 == 6:
                # a Reliable packet that has its sequence id but cannot be sent: the (small) frame window is full of frames that
                # carried only Unreliable data and were all swallowed by a blackout; the sync timer fires during the blackout and
                # after it; then the network is fair. The packet must still be delivered (exactly once).
                cfg = pick_cfg(r); cfg["fw"] = r.pick([4, 4, 8]); cfg["pw"] = 64; cfg["bwA"] = cfg["bwB"] = 20_000_000
                cfg["allocA"] = cfg["allocB"] = 1_000_000
                sim = Sim(r, cfg, inter=it)
                lat = r.pick([0, 1_000_000])
                ok = Net(latency=lat); dead = Net(loss=1000)
                def warm(sim, ep):
                    if ep == "A" and sim.tick < 40:
                        sim.send("A", r.below(3), r.pick([1, 3]), 1000)
                sim.run(70, 5_000_000, ok, ok, warm)
                for _ in range(cfg["fw"] + r.pick([0, 1, 2])):
                    sim.send("A", r.below(3), 1, r.pick([1400, 1448, 1200]))       # one frame each, never re-sent
                for _ in range(r.range(1, 3)):
                    sim.send("A", r.below(3), 3, r.pick([4, 100, 1448, 3000]))
                sim.run(int(r.pick([2_200, 3_000, 5_000]) * 10**6 // 50_000_000), 50_000_000, dead, dead)
                sim.run(r.range(40, 80), 50_000_000, ok, ok)
                sim.latency = lat
                sim.meta = {"cfg": cfg}
            else:
                cfg = pick_cfg(r)
                sim = H.lossy_scenario(r, it, tier, small_volume=True, cfg=cfg, modes=(0, 1, 2, 3, 3), max_len=2000)
            H.finish(sim, drain=True, max_ticks=900)
            if sim.drained and not sim.dead:
                # a sync round (>= 2 s without data) lets the receiver's window pass packets that were sent once and lost,
                # after which the sender's window is empty as well
                lat = getattr(sim, "latency", 0)
                sim.run(120, 50_000_000, Net(latency=lat), Net(latency=lat))
                for ep in sim.eps:
                    sim.probe(ep); sim.get(ep)
            cid = "r%d" % i
            cases.append((cid, sim.ops)); meta[cid] = sim
    finally:
        it.close()
    return [{"name": "reliable", "mode": "hc", "cases": cases, "meta": meta, "case_timeout": 180}]

def signature(ops, outs):
    nd = sum(int(o.split(" ")[0]) for op, o in zip(ops, outs) if op.endswith(" recv") and o and o[0].isdigit())
    if nd < 3:
        return None
    return (ops[1][:60], min(nd // 5, 9), min(len(ops) // 500, 9))

def oracle(stream, cid, ops, outs):
    fails = H.trap_failures(ops, outs)
    sim = stream["meta"][cid]
    delivered, frames, probes, gets = H.replay_outputs(ops, outs)
    fails += c01.channel_order_failures(sim, delivered)
    for ep in ("A", "B"):
        src = sim.other(ep)
        by_digest = {}
        for p in sim.sent[src]:
            by_digest.setdefault(p.digest, []).append(p)
        got = set()
        for (t, d) in delivered.get(ep, []):
            p = next((c for c in by_digest.get(d, []) if c.idx not in got), None)
            if p is None:
                continue
            # no-skip: every earlier Reliable packet of the same channel must already have been delivered
            for q in sim.sent[src][:p.idx]:
                if q.chan == p.chan and q.mode == 3 and q.idx not in got:
                    fails.append({"oracle": "no_skip", "detail": "%s: channel %d packet #%d delivered while Reliable packet #%d of that channel was not" % (ep, p.chan, p.idx, q.idx),
                                  "signature": {"oracle": "no_skip"}})
                    return fails
            got.add(p.idx)
        if sim.drained:
            for q in sim.sent[src]:
                if q.mode == 3 and q.idx not in got:
                    fails.append({"oracle": "reliable_delivered", "detail": "%s: Reliable packet #%d (%d bytes, channel %d) of %s never delivered although the connection is quiescent" %
                                  (ep, q.idx, q.len, q.chan, src), "signature": {"oracle": "reliable_delivered"}})
                    return fails
    if sim.drained is False and not sim.dead and not H.tail_progress(ops, outs):
        # budget exhausted AND nothing moved during the last 300 virtual seconds (a connection that is merely slow - the rate
        # controller near its 23 B/s floor with a backlog - is not a stalled one; its rate is C11's and C14's subject)
        fails.append({"oracle": "quiescence", "detail": "not quiescent after the fair suffix (%d virtual s): A pending/sbs %s, B %s" %
                      (sim.time // 10**9, gets.get("A", [{}])[-1].get("pending"), gets.get("B", [{}])[-1].get("pending")), "signature": {"oracle": "quiescence"}})
    if sim.drained:
        for ep in ("A", "B"):
            g = gets.get(ep, [])
            if g and (g[-1]["pending"] != "0" or g[-1]["sbs"] != "0"):
                fails.append({"oracle": "quiescent_state", "detail": "%s: pending=%s send_buffer_size=%s at quiescence" % (ep, g[-1]["pending"], g[-1]["sbs"]),
                              "signature": {"oracle": "quiescent_state"}})
    return fails
