"""C18 — unverified addresses cannot use the server as an amplifier."""
import vlib
from checkflow import Interactive
from props import ep_common as E
from props import c08
from gen_ep import EpSim, DEFAULT_EP
from gen_hc import Net

PROP = "C18"
LAKE_TARGETS = ["Uflow.Props.C18", "uflow_driver"]
TRUSTED_BASE = c08.TRUSTED_BASE
ASSUMPTIONS = ["bytes are UDP payload bytes captured on the harness-owned relay sockets"]
RULE = ("raw peers (no client object) send valid, repeated, undersized, oversized, wrong-version, config-refused and server-full SYNs and stray frames of every other type "
        "to a server, then wait up to 25 s while the server steps; per address the running totals of bytes sent by the server and bytes received from the address are "
        "compared after every step: sent < received whenever anything was sent, and nothing is sent in response to an undersized request. Round-7 family: servers with idle timeouts of minutes to none at all, one full-size request per address, ten minutes of silence. Non-trivial: the server replied.")

def streams(rng, tier, ctx):
    n = 24 if tier == "quick" else 300
    it = Interactive("ep"); codec = Interactive("codec")
    cases = []; meta = {}
    try:
        for k in range(n):
            r = rng.fork()
            it.op("=== gen%d" % k)
            sim = EpSim(r, inter=it)
            longidle = (k % 6 == 4)
            # round-7 family "long idle timeout": servers configured for slow links (active_timeout_ms of minutes, hours, none);
            # one full-size request per address, then silence for ten minutes - the retransmission budget towards an address
            # that never answers must not depend on the configuration
            tmo = r.pick([120_000, 600_000, 3_600_000, 2**40]) if longidle else 20000
            sim.srv(r.pick([8, 2, 1]), r.pick([8, 1]), r.pick([0, 1]), dict(DEFAULT_EP, maxpkt=r.pick([1_000_000, 100_000]), timeout=tmo))
            npeers = r.range(1, 4)
            for i in range(npeers):
                sim.peer(i)
            nets = {"c2s": Net(), "s2c": Net()}
            dt = r.pick([100_000_000, 500_000_000, 1_000_000_000])
            flood = (k % 4 == 3)
            if flood:
                # one full-size SYN per peer, then a long run of small stray frames of every type towards the pending entry
                for i in range(npeers):
                    sim.raw("c2s", i, codec.op("enc syn 3 %d 2000000 1000000 1000000" % (7 + i)), {"kind": "syn", "len": 1472})
                sim.tick += 1; sim.set_time(sim.time + dt); sim.sstep(nets)
                nflood = r.pick([250, 400])
                kind = r.pick(["data", "data", "sync", "ack", "mixed"])
                for j in range(nflood):
                    i = 0 if r.chance(9, 10) else r.below(npeers)
                    txt = {"data": "data %d %d 0" % (j, j & 1), "sync": "sync 5 5", "ack": "ack 1 2 0"}.get(kind) or \
                          r.pick(["data %d 0 0" % j, "sync 5 5", "ack 1 2 0", "hsack %d" % (r.next() & 0xFFFFFFFF), "disc", "discack"])
                    hx = codec.op("enc " + txt)
                    if len(hx) >= 2:
                        sim.raw("c2s", i, hx, {"kind": "stray", "len": len(hx) // 2})
                    if j % r.pick([5, 20, 60]) == 0:
                        sim.tick += 1; sim.set_time(sim.time + r.pick([1_000_000, 50_000_000])); sim.sstep(nets)
            if longidle:
                for i in range(npeers):
                    sim.raw("c2s", i, codec.op("enc syn 3 %d 2000000 1000000 1000000" % (7 + i)), {"kind": "syn", "len": 1472})
                for _ in range(320):
                    sim.tick += 1; sim.set_time(sim.time + r.pick([2_000_000_000, 2_000_000_000, 1_900_000_000])); sim.sstep(nets)
            for round_ in range(r.range(5, 40) if not (flood or longidle) else 0):
                for i in range(npeers):
                    if r.chance(1, 2):
                        kind = r.weighted([("syn", 5), ("syn_again", 3), ("short", 3), ("badver", 2), ("badcfg", 2), ("stray", 4), ("long", 1), ("noise", 1)])
                        nonce = r.pick([7 + i, r.next() & 0xFFFFFFFF])
                        if kind in ("syn", "syn_again"):
                            hx = codec.op("enc syn 3 %d 2000000 1000000 1000000" % (7 + i if kind == "syn_again" else nonce))
                        elif kind == "badver":
                            hx = codec.op("enc syn %d %d 2000000 1000000 1000000" % (r.pick([0, 2, 4, 255]), nonce))
                        elif kind == "badcfg":
                            hx = codec.op("enc syn 3 %d 2000000 %d %d" % (nonce, r.pick([1000000, 50_000_000]), r.pick([10, 1000000])))
                        elif kind == "short":
                            full = codec.op("enc syn 3 %d 2000000 1000000 1000000" % nonce)
                            cut = r.pick([18, 25, 26, 30, 64, 100, 300, 1000, 1471])
                            body = full[:2 * (cut - 4)]
                            hx = body + "%08x" % int(codec.op("crc " + body))
                        elif kind == "long":
                            hx = codec.op("enc syn 3 %d 2000000 1000000 1000000" % nonce) + "00" * r.pick([1, 28])
                        elif kind == "stray":
                            txt = r.pick(["hsack %d" % nonce, "hserr %d 1" % nonce, "disc", "discack", "sync 5 5", "ack 1 2 1 3 1 0", "data 5 0 1 7 0 0 0 0 0 aabb",
                                          "synack %d 5 2000000 1000000 1000000" % nonce])
                            hx = codec.op("enc " + txt)
                        else:
                            hx = r.bytes(r.range(1, 200)).hex()
                        if len(hx) >= 2:
                            sim.raw("c2s", i, hx, {"kind": kind, "len": len(hx) // 2})
                sim.tick += 1
                sim.set_time(sim.time + dt)
                sim.sstep(nets)
            for _ in range(int(26_000_000_000 // dt) + 2):
                sim.tick += 1
                sim.set_time(sim.time + dt)
                sim.sstep(nets)
            cid = "a%d" % k
            cases.append((cid, sim.ops)); meta[cid] = sim
    finally:
        it.close(); codec.close()
    return [{"name": "amplification", "mode": "ep", "cases": cases, "meta": meta, "case_timeout": 60}]

def signature(ops, outs):
    replies = sum(o.count("hserr_") + o.count("synack_") for op, o in zip(ops, outs) if op == "sstep")
    if replies == 0:
        return None
    return (ops[1][:24], min(replies, 12), "hserr_" in "".join(o for o in outs if "hserr_" in o), min(len(ops) // 100, 8))

def oracle(stream, cid, ops, outs):
    fails = E.trap_failures(ops, outs)
    sev, cev, log, delivered, calls = E.replay(ops, outs)
    peers = set(p for (p, dr) in log) | set(q for (_, _, q, _) in delivered)
    connected = {}
    for (t, tag, p, _) in sev:
        if tag == "C" and p not in connected:
            connected[p] = t
    for p in peers:
        ev = [(t, 0, d.get("len", 0)) for (t, dr, q, d) in delivered if dr == "c2s" and q == p] + \
             [(d["time"], 1, d["len"]) for d in log.get((p, "s2c"), [])]
        ev.sort()
        rx = tx = 0; full = False
        for (t, kind, ln) in ev:
            if p in connected and t >= connected[p]:
                break
            if kind == 0:
                rx += ln; full = full or ln >= 1472
            else:
                tx += ln
                if not full:
                    fails.append({"oracle": "undersized_ignored", "detail": "peer %d: the server sent %d bytes at t=%d ms although the address had only sent datagrams shorter than the 1472-byte padded SYN (%d bytes in all)" %
                                  (p, ln, t // 10**6, rx), "signature": {"oracle": "undersized_ignored"}})
                    break
            if tx > 0 and tx >= rx:
                fails.append({"oracle": "amplification", "detail": "peer %d: server had sent %d bytes but received only %d bytes by t=%d ms (handshake not completed)" %
                              (p, tx, rx, t // 10**6), "signature": {"oracle": "amplification"}})
                break
    return fails
