"""C17 — the server enforces its connection limits."""
import vlib
from checkflow import Interactive
from props import ep_common as E
from props import c08

PROP = "C17"
LAKE_TARGETS = ["Uflow.Props.C17", "Uflow.Props.C17Timeout", "uflow_driver"]
PROPS_FILES = ["C17", "C17Timeout"]
TRUSTED_BASE = c08.TRUSTED_BASE
ASSUMPTIONS = ["'established' = between the server's Connect event for an address and its terminal event (or the drop call)"]
RULE = ("servers with max_active 1..4 and max_total 1..8 against up to 8 clients whose handshakes overlap in every order (many SYNs before any ACK), connections ending by "
        "disconnect / drop / timeout in between and new ones arriving; oracle: number of established connections never exceeds max_active, number of addresses with a "
        "live handshake or connection never exceeds max_total, a ServerFull refusal only when a limit is reached; plus servers filled to max_active in which one connection is "
        "on its way out (disconnect() with unsent data towards a silent peer, disconnect_now(), client-side disconnect, silence) while newcomers connect. "
        "Non-trivial: more clients than the limit tried to connect.")

def streams(rng, tier, ctx):
    n = 24 if tier == "quick" else 400
    it = Interactive("ep")
    cases = []; meta = {}
    try:
        for i in range(n):
            r = rng.fork()
            it.op("=== gen%d" % i)
            lim = (r.pick([1, 2, 3, 8]), r.pick([1, 1, 2, 3, 4]))
            sim = E.general_scenario(r, it, tier, n_clients=r.range(2, 8), limits=lim, lossy=(i % 2 == 0), variants=False, traffic=(i % 3 == 0),
                                     dt_choices=(50_000_000, 500_000_000))
            sim.limits = lim
            cid = "l%d" % i
            cases.append((cid, sim.ops)); meta[cid] = sim
        # a slot is held until the terminal event: connections being flushed out (disconnect() with unsent /
        # unacknowledged data towards a silent peer), closing, or timing out, while newcomers keep knocking
        for i in range(n // 2):
            r = rng.fork()
            it.op("=== genh%d" % i)
            k = r.pick([1, 1, 2, 3])
            lim = (r.pick([k, k + 1, 8]), k)
            sim = E.EpSim(r, inter=it)
            sim.srv(lim[0], lim[1], 1, dict(E.DEFAULT_EP))
            lat = r.pick([0, 5_000_000])
            nets = {"c2s": E.Net(latency=lat), "s2c": E.Net(latency=lat)}
            dt = r.pick([20_000_000, 50_000_000, 200_000_000])
            for j in range(k):
                sim.cli(j, dict(E.DEFAULT_EP), nets)
            sim.run(r.range(6, 14), dt, nets)
            victim = r.below(k)
            how = r.pick(["sdisc", "sdisc", "sdisc", "cdisc", "sdiscnow", "silence"])
            if r.chance(3, 4):
                for _ in range(r.range(1, 4)):
                    sim.send("s", victim, r.below(3), r.pick([3, 3, 2, 1]), r.pick([1000, 20_000, 60_000]))
            if r.chance(2, 3):
                nets[(victim, "c2s")] = E.Net(loss=1000); nets[(victim, "s2c")] = E.Net(loss=1000)
            if how != "silence":
                sim.call(how, victim)
            newcomers = list(range(k, k + r.range(1, 3)))
            def actions(sim, newcomers=newcomers, nets=nets):
                for j in sorted(sim.clients):
                    sim.op("sget %d" % j)             # RemoteClient::is_active(), sampled every tick
                if newcomers and r.chance(1, 2):
                    sim.cli(newcomers.pop(0), dict(E.DEFAULT_EP), nets)
            sim.run(r.range(20, 80), dt, nets, actions)
            sim.limits = lim
            cid = "h%d" % i
            cases.append((cid, sim.ops)); meta[cid] = sim
        # capacity returns: every way a connection can end (one-sided and crossing disconnects, drop, silence/timeout),
        # then long enough for every lingering entry to expire, then as many newcomers as the limits allow
        for i in range(n // 3):
            r = rng.fork()
            it.op("=== genc%d" % i)
            k = r.pick([1, 2, 3])
            lim = (k, r.pick([k, 8]))
            sim = E.EpSim(r, inter=it)
            sim.srv(lim[0], lim[1], r.pick([0, 1]), dict(E.DEFAULT_EP))
            theme = r.pick(["cross", "abandoned", "mixed", "mixed"]) if i % 3 else "flush_dead"      # how the first k connections end
            lat = r.pick([0, 5_000_000]) if theme != "cross" else 5_000_000   # crossing needs both requests in flight at once
            nets = {"c2s": E.Net(latency=lat), "s2c": E.Net(latency=lat)}
            dt = r.pick([50_000_000, 200_000_000])
            # handshakes that never complete: every SYN-ACK is lost
            abandoned = set(j for j in range(k) if (theme == "abandoned" and (j == 0 or r.chance(1, 2))) or (theme == "mixed" and r.chance(1, 4)))
            for j in abandoned:
                nets[(j, "s2c")] = E.Net(loss=1000)
            for j in range(k):
                sim.cli(j, dict(E.DEFAULT_EP), nets)
            sim.run(r.range(6, 14), dt, nets)
            for j in range(k):
                if j in abandoned:
                    continue
                how = r.pick(["cross", "cross", "sdisc", "cdiscnow", "sdrop", "silence", "flush_dead", "flush_dead"]) if theme != "cross" else "cross"
                if theme == "flush_dead" and (j == 0 or r.chance(1, 2)):
                    how = "flush_dead"
                if how == "flush_dead":
                    # round-7 change C17-g: the application asks for a graceful disconnect with Reliable data still unacknowledged and the
                    # peer has gone silent for good - the flush can never complete, only the active timeout ends the connection
                    nets[(j, "c2s")] = E.Net(loss=1000); nets[(j, "s2c")] = E.Net(loss=1000)
                    for _ in range(r.range(1, 3)):
                        sim.send("s", j, r.below(3), 3, r.pick([100, 1448, 5000]))
                    sim.call("sdisc", j)
                elif how == "cross":
                    sim.call(r.pick(["sdisc", "sdiscnow"]), j); sim.call(r.pick(["cdisc", "cdiscnow"]), j)
                elif how == "silence":
                    nets[(j, "c2s")] = E.Net(loss=1000); nets[(j, "s2c")] = E.Net(loss=1000)
                else:
                    sim.call(how, j)
            big = 1_000_000_000
            sim.run(125, big, nets)                     # 125 s: every entry (handshake / disconnect retries 22 s, active timeout 20 s, closed linger 20 s) is gone
            #                                             and the last datagram of any of them is more than 70 s old
            sim.settled_from = sim.time
            for j in range(k, 2 * k):
                sim.cli(j, dict(E.DEFAULT_EP), nets)
                sim.run(2, dt, nets)
            sim.run(r.range(10, 30), dt, nets)
            sim.limits = lim
            cid = "r%d" % i
            cases.append((cid, sim.ops)); meta[cid] = sim
        # the same address again while the server's entry of its previous connection lingers (client-side disconnect: 20 s in
        # Closed): the old entry's timers must not disturb the accounting of the new connection; then newcomers up to and
        # beyond the limit
        for i in range(max(2, n // 4)):
            r = rng.fork()
            it.op("=== genl%d" % i)
            k = r.pick([1, 1, 2])
            lim = (8, k)
            sim = E.EpSim(r, inter=it)
            sim.srv(lim[0], lim[1], r.pick([0, 1]), dict(E.DEFAULT_EP))
            lat = r.pick([0, 5_000_000])
            nets = {"c2s": E.Net(latency=lat), "s2c": E.Net(latency=lat)}
            dt = r.pick([50_000_000, 200_000_000])
            for j in range(k):
                sim.cli(j, dict(E.DEFAULT_EP), nets)
            sim.run(r.range(6, 14), dt, nets)
            sim.call(r.pick(["cdisc", "cdiscnow"]), 0)
            sim.run(r.range(3, 10), dt, nets)
            sim.recli(0, dict(E.DEFAULT_EP), nets)           # retries its SYN every 2 s until the server listens to the address again
            sim.run(int(r.pick([30, 45]) * 10**9 // dt), dt, nets)
            for j in range(k, k + 2):
                sim.cli(j, dict(E.DEFAULT_EP), nets)
                sim.run(3, dt, nets)
            sim.run(r.range(10, 30), dt, nets)
            sim.limits = lim
            cid = "g%d" % i
            cases.append((cid, sim.ops)); meta[cid] = sim
    finally:
        it.close()
    return [{"name": "limits", "mode": "ep", "cases": cases, "meta": meta, "case_timeout": 60}]

def oracle(stream, cid, ops, outs):
    fails = E.trap_failures(ops, outs)
    sim = stream["meta"][cid]
    max_total, max_active = sim.limits
    sev, cev, log, delivered, calls = E.replay(ops, outs)
    # (a) event view: a connection is established from its Connect event until its terminal event, the drop call, or
    #     the moment the server application asks for the disconnect (from then on it is closing, which only counts
    #     towards max_total)
    timeline = [(t, 1, tag, p) for (t, tag, p, _) in sev] + [(t, 0, "drop", p) for (t, w, p) in calls if w in ("sdrop", "sdisc", "sdiscnow")]
    timeline.sort(key=lambda x: (x[0], x[1]))
    est = set()
    for (t, _, tag, p) in timeline:
        if tag == "C":
            est.add(p)
            if len(est) > max_active:
                fails.append({"oracle": "max_active", "detail": "%d connections established (peers %s) with max_active_connections = %d at t=%d ms" %
                              (len(est), sorted(est), max_active, t // 10**6), "signature": {"oracle": "max_active"}})
                break
        elif tag in ("D", "E", "drop"):
            est.discard(p)
    # (c) capacity returns: a ServerFull refusal needs a limit to be reached. Any entry the server tracks has exchanged a
    #     datagram with its address within the last 70 s (handshake / disconnect retries 22 s, active timeout 20 s,
    #     closed linger 20 s), so a refusal while fewer than min(max_total, max_active) other addresses were heard from or
    #     written to in that period cannot be justified
    HORIZON = 70_000 * 10**6
    refusals = [(t, p) for (t, tag, p, x) in sev if tag == "E" and x == "ServerFull"] + \
               [(t, i) for i, evs in cev.items() if isinstance(i, int) for (t, tag, x) in evs if tag == "E" and x == "ServerFull"]
    for (t, p) in sorted(refusals):
        if True:
            recent = set(q for (tt, dr, q, d) in delivered if q != p and t - HORIZON < tt <= t)
            recent |= set(q for (q, dr), dgs in log.items() if q != p and any(t - HORIZON < d["time"] <= t for d in dgs))
            if len(recent) < min(max_total, max_active) and not fails:
                fails.append({"oracle": "capacity_returns", "detail": "peer %d refused with ServerFull at t=%d ms although only %d other address(es) exchanged a datagram with the server in the preceding 70 s (max_total %d, max_active %d)" %
                              (p, t // 10**6, len(recent), max_total, max_active), "signature": {"oracle": "capacity_returns"}})
    # (c') the same with HEARD FROM only: an entry survives without a datagram from its address for at most 20 s (active timeout) plus
    #      22 s (its own disconnect retries); a pending handshake 22 s, a closed entry 20 s. So a refusal while fewer than the limit
    #      other addresses were heard from in the preceding 70 s is unjustified even if the server is still WRITING to a silent
    #      address - a connection being flushed towards a dead peer must be ended by the active timeout (round-7 change C17-g)
    for (t, p) in sorted(refusals):
        heard = set(q for (tt, dr, q, d) in delivered if dr == "c2s" and q != p and t - HORIZON < tt <= t)
        if len(heard) < min(max_total, max_active) and not fails:
            fails.append({"oracle": "capacity_returns", "detail": "peer %d refused with ServerFull at t=%d ms although only %d other address(es) were heard from in the preceding 70 s (max_total %d, max_active %d): a slot is held by a connection whose peer has been silent for longer than any timer allows" %
                          (p, t // 10**6, len(heard), max_total, max_active), "signature": {"oracle": "capacity_returns", "cause": "silent_peer_holds_slot"}})
    # (b) API view: the number of RemoteClients reporting is_active() at one instant
    t = 0; active = {}
    for op, o in zip(ops, outs):
        w = op.split(" ")
        if w[0] == "t":
            t = int(w[1])
            if sum(active.values()) > max_active and not fails:
                fails.append({"oracle": "max_active_api", "detail": "%d RemoteClients report is_active() (peers %s) with max_active_connections = %d at t=%d ms" %
                              (sum(active.values()), sorted(k for k, v in active.items() if v), max_active, t // 10**6), "signature": {"oracle": "max_active_api"}})
            active = {}
        elif w[0] == "sget" and o.startswith("active="):
            active[int(w[1])] = int(o.split(" ")[0].split("=")[1])
    return fails

def signature(ops, outs):
    ncli = sum(1 for op in ops if op.startswith("cli "))
    conn = sum(o.split("|")[0].count(" C") for op, o in zip(ops, outs) if op == "sstep" and o.startswith("ev"))
    if conn == 0:
        return None
    full = sum(1 for o in outs if "hserr_" in o and o.rstrip().endswith("_2") or "_2 " in o and "hserr_" in o)
    return (ops[1][:20], ncli, min(conn, 9), full > 0)
