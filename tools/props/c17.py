"""C17 — the server enforces its connection limits."""
import vlib
from checkflow import Interactive
from props import ep_common as E
from props import c08

PROP = "C17"
LAKE_TARGETS = ["Uflow.Props.C17", "uflow_driver"]
TRUSTED_BASE = c08.TRUSTED_BASE
ASSUMPTIONS = ["'established' = between the server's Connect event for an address and its terminal event (or the drop call)"]
RULE = ("servers with max_active 1..4 and max_total 1..8 against up to 8 clients whose handshakes overlap in every order (many SYNs before any ACK), connections ending by "
        "disconnect / drop / timeout in between and new ones arriving; oracle: number of established connections never exceeds max_active, number of addresses with a "
        "live handshake or connection never exceeds max_total, a ServerFull refusal only when a limit is reached. Non-trivial: more clients than the limit tried to connect.")

def streams(rng, tier, ctx):
    n = 24 if tier == "quick" else 400
    it = Interactive("ep")
    cases = []; meta = {}
    try:
        for i in range(n):
            r = rng.fork()
            it.op("=== gen%d" % i)
            lim = (r.pick([1, 2, 3, 8]), r.pick([1, 1, 2, 3, 4]))
            sim = E.general_scenario(r, it, tier, n_clients=r.range(2, 8), limits=lim, lossy=(i % 2 == 0), variants=False, traffic=(i % 3 == 0),
                                     dt_choices=(50_000_000, 500_000_000))
            sim.limits = lim
            cid = "l%d" % i
            cases.append((cid, sim.ops)); meta[cid] = sim
    finally:
        it.close()
    return [{"name": "limits", "mode": "ep", "cases": cases, "meta": meta, "case_timeout": 60}]

def oracle(stream, cid, ops, outs):
    fails = E.trap_failures(ops, outs)
    sim = stream["meta"][cid]
    max_total, max_active = sim.limits
    sev, cev, log, delivered, calls = E.replay(ops, outs)
    timeline = [(t, 1, tag, p) for (t, tag, p, _) in sev] + [(t, 0, "drop", p) for (t, w, p) in calls if w == "sdrop"]
    timeline.sort(key=lambda x: (x[0], x[1]))
    est = set()
    for (t, _, tag, p) in timeline:
        if tag == "C":
            est.add(p)
            if len(est) > max_active:
                fails.append({"oracle": "max_active", "detail": "%d connections established (peers %s) with max_active_connections = %d at t=%d ms" %
                              (len(est), sorted(est), max_active, t // 10**6), "signature": {"oracle": "max_active"}})
                break
        elif tag in ("D", "E", "drop"):
            est.discard(p)
    return fails

def signature(ops, outs):
    ncli = sum(1 for op in ops if op.startswith("cli "))
    conn = sum(o.split("|")[0].count(" C") for op, o in zip(ops, outs) if op == "sstep" and o.startswith("ev"))
    if conn == 0:
        return None
    full = sum(1 for o in outs if "hserr_" in o and o.rstrip().endswith("_2") or "_2 " in o and "hserr_" in o)
    return (ops[1][:20], ncli, min(conn, 9), full > 0)
