"""C10 — timeouts fire after, and only after, the configured silence."""
import vlib
from checkflow import Interactive
from props import ep_common as E
from props import c08
from gen_ep import EpSim, DEFAULT_EP
from gen_hc import Net

PROP = "C10"
LAKE_TARGETS = ["Uflow.Props.C10", "uflow_driver"]
TRUSTED_BASE = c08.TRUSTED_BASE
ASSUMPTIONS = ["'received at' = the virtual time of the step() that read the frame from the socket (the only instant an endpoint can observe)",
               "frames that count as received from the peer: the SYN-ACK / handshake ACK that establishes the connection and every data, ack and sync frame while it is active"]
RULE = ("(a) handshakes in which the SYN-ACK is lost 0..11 times (and the handshake therefore takes up to 22 s) followed by traffic or silence; (b) established connections "
        "whose last frame lands -1/0/+1 step around the deadline, timeouts 1..20 s, cadences 5 ms..2 s; (c) idle keepalive connections on a loss-free link for minutes; "
        "(d) handshake / disconnect attempts against a silent peer, incl. disconnects issued 0..3.5 s after the handshake from either side (stale handshake timers pending). Oracle: timeout only after >= T of silence, timeout within one step after T of silence, "
        "Error(Timeout) of a handshake/disconnect after exactly 10 resends and not before 22 s, no timeout under keepalive. Non-trivial: a connection was established or a timeout fired.")

def handshake_delay_scenario(r, it, tier):
    sim = EpSim(r, inter=it)
    T = r.pick([1000, 3000, 8000, 20000])
    scfg = dict(DEFAULT_EP, timeout=r.pick([3000, 20000]))
    sim.srv(8, 8, 1, scfg)
    ccfg = dict(DEFAULT_EP, timeout=T, ka=r.pick([0, 1]), kams=r.pick([500, 2500]))
    k = r.weighted([(0, 2), (1, 2), (2, 2), (4, 1), (9, 1), (10, 1), (11, 1)])   # SYN-ACKs lost
    lost = [0]
    class LossyFirst(Net):
        pass
    nets = {"c2s": Net(), "s2c": Net()}
    sim.nets = nets
    dt = r.pick([50_000_000, 250_000_000, 1_000_000_000])
    sim.dt = dt
    sim.set_time(r.pick([0, 7_000_000, 123_000_000]))
    sim.cli(0, ccfg, nets)
    # drop the first k SYN-ACKs by hand: run with the reverse path closed until k SYN-ACKs were emitted
    closed = {"c2s": Net(), "s2c": Net(loss=1000)}
    for _ in range(400):
        if sim.dead:
            break
        n_synack = len([d for d in sim.log.get((0, "s2c"), []) if d["kind"] == "synack"])
        if n_synack >= k:
            break
        sim.run(1, dt, closed)
    traffic = r.pick([True, False])
    def actions(sim):
        if traffic and r.chance(1, 5):
            sim.send("s", 0, 0, 3, r.range(3, 500))
    sim.run(r.range(20, 80), dt, nets, actions)
    # silence from the server: it is dropped without a word, the client must time out after T
    if r.chance(1, 2):
        sim.call("sdrop", 0)
    sim.run(int(30_000_000_000 // dt) + 5 if dt >= 250_000_000 else 200, dt, {"c2s": Net(loss=1000), "s2c": Net(loss=1000)})
    return sim

def idle_scenario(r, it, tier):
    sim = EpSim(r, inter=it)
    T = r.pick([6000, 8000, 20000]); K = r.pick([1000, 2000, 2500, 5000])
    cfg = dict(DEFAULT_EP, timeout=T, ka=1, kams=K)
    # every third case: only ONE side sends keepalives; the other one's answers (acks to the bare sync frames) are all either hears
    asym = r.pick([None, None, "srv_off", "cli_off"])
    sim.srv(8, 8, 1, dict(cfg, ka=0) if asym == "srv_off" else cfg)
    lat = r.pick([0, 20_000_000, 200_000_000])
    nets = {"c2s": Net(latency=lat), "s2c": Net(latency=lat)}
    sim.nets = nets
    dt = r.pick([16_000_000, 100_000_000, 500_000_000, 1_000_000_000])
    sim.dt = dt
    sim.cli(0, dict(cfg, ka=0) if asym == "cli_off" else cfg, nets)
    sent = [0]
    both = r.chance(2, 3)        # data in both directions first: both senders have a feedback history when the idle period starts
    def actions(sim):
        sim.op("cget 0"); sim.op("sget 0")          # RTT estimates of both sides, every tick (for the F21 classification)
        if sent[0] < 3 and r.chance(1, 10):
            sim.send("c", 0, 0, 3, 100); sent[0] += 1
            if both:
                sim.send("s", 0, 0, 3, 100)
    sim.run(int(90_000_000_000 // dt), dt, nets, actions)
    sim.expect_no_timeout = (max(K, 2000, 600) + 2 * lat // 10**6 + 2 * dt // 10**6 + 1000) < T
    # Known finding F21: a keepalive frame is only sent once max(RTO, 2 s) has elapsed as well, and RTO = 4 x RTT estimate, where the
    # RTT seen by an endpoint includes two step intervals of each side: with a slow step cadence the keepalives come too late
    sim.rto_bound_ms = (max(4 * (3 * dt + 2 * lat), K * 10**6) + lat) // 10**6      # worst case: a frame is handled one step after it arrived on either side
    sim.keepalive_T = T; sim.keepalive_K = K; sim.lat_ns = lat
    sim.ka_senders = {"srv_off": ("c",), "cli_off": ("s",)}.get(asym, ("c", "s"))
    return sim

def early_disconnect_scenario(r, it, tier, idx=None):
    """a disconnect request issued 0..3 s after the handshake (stale handshake timers still queued) towards a peer
    that has just gone silent: the request must be repeated 10 times, 2 s apart, and time out 22 s after its first copy."""
    sim = EpSim(r, inter=it)
    cfg = dict(DEFAULT_EP, timeout=r.pick([20000, 30000]))
    sim.srv(8, 8, 1, cfg)
    lat = r.pick([0, 10_000_000])
    nets = {"c2s": Net(latency=lat), "s2c": Net(latency=lat)}
    sim.nets = nets
    dt = r.pick([50_000_000, 100_000_000, 250_000_000, 500_000_000])
    sim.dt = dt
    sim.set_time(r.pick([0, 5_000_000]))
    # optionally a slow handshake (lost SYN-ACKs), so that retry timers of the handshake are pending on both sides
    k = r.pick([0, 0, 1, 2])
    sim.cli(0, cfg, nets)
    closed = {"c2s": Net(), "s2c": Net(loss=1000)}
    for _ in range(200):
        if sim.dead or len([d for d in sim.log.get((0, "s2c"), []) if d["kind"] == "synack"]) >= k:
            break
        sim.run(1, dt, closed)
    for _ in range(100):
        if sim.dead or (any(tag == "C" for (_, tag, p, _) in sim.sevents) and any(tag == "C" for (_, tag, _) in sim.cevents.get(0, []))):
            break
        sim.run(1, dt, nets)
    wait = r.pick([0, 300_000_000, 1_000_000_000, 1_700_000_000, 1_900_000_000, 2_500_000_000, 3_500_000_000])
    who = r.pick(["sdiscnow", "sdisc", "cdiscnow", "cdisc"])
    if idx is not None:
        # the cases of one run cover every caller / mode, each at least once less than 2 s after the handshake began
        who = ["sdiscnow", "sdisc", "cdiscnow", "cdisc"][idx % 4]
        if idx < 4:
            wait = [0, 300_000_000, 1_000_000_000, 1_700_000_000][(idx + wait // 10**8) % 4]
    if wait:
        sim.run(max(1, int(wait // dt)), dt, nets)
    sim.call(who, 0)
    sim.early = who
    silent = {"c2s": Net(loss=1000), "s2c": Net(loss=1000)} if who[0] == "s" else {"c2s": Net(loss=1000), "s2c": Net(loss=1000)}
    sim.run(int(27_000_000_000 // dt) + 4, dt, silent)
    return sim

def busy_server_scenario(r, it, tier):
    """one peer goes silent while the server is busy with others (handshakes in progress, graceful disconnects lingering, requests
    being repeated): its timeout must be reported at its own deadline, not when the server's timer queue happens to be empty."""
    sim = EpSim(r, inter=it)
    T = r.pick([1000, 3000, 8000])
    cfg = dict(DEFAULT_EP, timeout=T, ka=r.pick([0, 1]))
    sim.srv(8, 8, r.pick([0, 1]), cfg)
    lat = r.pick([0, 5_000_000])
    nets = {"c2s": Net(latency=lat), "s2c": Net(latency=lat)}
    sim.nets = nets
    dt = r.pick([20_000_000, 50_000_000, 100_000_000])
    sim.dt = dt
    sim.cli(0, dict(DEFAULT_EP), nets)
    sim.run(r.range(5, 15), dt, nets)
    nets[(0, "c2s")] = Net(loss=1000); nets[(0, "s2c")] = Net(loss=1000)        # peer 0 vanishes
    nxt = [1]; alive = []
    def actions(sim):
        if r.chance(1, max(1, int(1_200_000_000 // dt))):
            if alive and r.chance(1, 2):
                j = alive.pop(0)
                sim.call(r.pick(["cdisc", "cdiscnow", "sdisc"]), j)
            elif nxt[0] < 7:
                sim.cli(nxt[0], dict(DEFAULT_EP), nets); alive.append(nxt[0]); nxt[0] += 1
    sim.run(int((T + 6000) * 10**6 // dt), dt, nets, actions)
    return sim

def streams(rng, tier, ctx):
    n = 36 if tier == "quick" else 360
    it = Interactive("ep")
    cases = []; meta = {}
    n_early = [0]
    try:
        for i in range(n):
            r = rng.fork()
            it.op("=== gen%d" % i)
            fam = i % 6
            if fam == 0:
                sim = handshake_delay_scenario(r, it, tier)
            elif fam == 1:
                sim = idle_scenario(r, it, tier)
            elif fam == 5 and i % 12 == 5:
                sim = busy_server_scenario(r, it, tier)
            elif fam >= 4:
                sim = early_disconnect_scenario(r, it, tier, idx=n_early[0]); n_early[0] += 1
            else:
                sim = E.general_scenario(r, it, tier, variants=True, forge=False, disconnects=(fam == 3), dt_choices=(50_000_000, 500_000_000, 1_000_000_000))
                sim.run(30, 1_000_000_000, {"c2s": Net(loss=1000), "s2c": Net(loss=1000)}, None)
            cid = "t%d" % i
            cases.append((cid, sim.ops)); meta[cid] = sim
        # the two open known findings, each by a scenario with a fixed seed (independent of VERIF_SEED): every run shows whether
        # they are still there; they go through the same correspondence and the same oracle as every other case
        from checkflow import SplitMix
        for (name, fam, sd) in (("kfF9", handshake_delay_scenario, 0xF900 + 2), ("kfF21", idle_scenario, 0xF2100 + 21)):
            it.op("=== " + name)
            sim = fam(SplitMix(sd), it, tier)
            cases.append((name, sim.ops)); meta[name] = sim
    finally:
        it.close()
    return [{"name": "timeouts", "mode": "ep", "cases": cases, "meta": meta, "case_timeout": 120}]

def signature(ops, outs):
    evs = "".join(sorted(set(e[0] + (e.split(":")[1][:2] if ":" in e and e[0] == "E" else "") for op, o in zip(ops, outs)
                             if op.startswith(("sstep", "cstep")) and o.startswith("ev") for e in o.split("|")[0].split()[1:])))
    if "C" not in evs and "E" not in evs:
        return None
    return (evs, ops[1][:30], min(len(ops) // 300, 8))

def f21_cause(sim, ops, outs, victim_side, te):
    """keepalive_held_back_by_rto iff the keepalive SENDER's own RTT estimate justifies a sync timeout (4 x RTT) that, together with the
    delivery delay, does not fit into the victim's active timeout."""
    import struct
    # the side(s) whose keepalive frames the victim depends on: its peer - or, when only one side has keepalives enabled, that side
    # (its frames are also what makes the other side answer); once one side has timed out the other one follows for the same reason,
    # so the estimates are read up to the FIRST timeout of the case
    senders = [x for x in getattr(sim, "ka_senders", ("c", "s")) if x != victim_side] or list(getattr(sim, "ka_senders", ("c", "s")))
    t_first = te
    t = 0
    for op, o in zip(ops, outs):
        w = op.split(" ")
        if w[0] == "t":
            t = int(w[1])
        elif w[0] in ("sstep", "cstep") and o.startswith("ev") and ":Timeout" in o.split("|")[0]:
            t_first = min(t_first, t); break
    t = 0; rtts = {}
    for op, o in zip(ops, outs):
        w = op.split(" ")
        if w[0] == "t":
            t = int(w[1])
            if t > t_first: break
        elif w[0] in ("sget", "cget") and "rtt=" in o:
            v = o.split("rtt=")[1].split(" ")[0]
            if v != "-":
                rtts[w[0][0]] = struct.unpack(">d", struct.pack(">Q", int(v)))[0]
    rtt = max([rtts[x] for x in senders if x in rtts] or [None], key=lambda v: -1 if v is None else v)
    if rtt is None:
        # the keepalive sender never obtained an RTT sample. With a step cadence of 600 ms or more that is the rule, not an accident:
        # every frame is older than the initial RTO (4 x 150 ms) when its acknowledgement is processed, so it has been forgotten
        # (counted as lost) by then; the no-feedback timer then doubles the RTO, and the keepalive frames wait for it (F21)
        return "keepalive_held_back_by_rto" if getattr(sim, "dt", 0) >= 600_000_000 else "other"
    # the documented restriction "keepalive frames are not sent faster than the connection RTO or 2 s, whichever is longer" is in
    # force (rather than the 2 s floor) once 4 x RTT estimate exceeds 2 s, i.e. with RTT estimates of 0.5 s and more (slow step
    # cadences, long links); RTO = max(4 x RTT, 2 x MSS / send rate) then exceeds the active timeout on quiet connections
    return "keepalive_held_back_by_rto" if 4.0 * rtt * 1000.0 >= 2000.0 else "other"

def oracle(stream, cid, ops, outs):
    fails = E.trap_failures(ops, outs)
    sim = stream["meta"][cid]
    sev, cev, log, delivered, calls = E.replay(ops, outs)
    attributed = set()      # (client, time) of timeouts already explained by the known finding F9 (same event, not reported twice)
    step_times = {}
    time = 0
    for op in ops:
        t = op.split(" ")
        if t[0] == "t": time = int(t[1])
        elif t[0] == "cstep": step_times.setdefault(int(t[1]), []).append(time)
    for i, evs in cev.items():
        T = sim.clients[i]["timeout"] * 10**6
        tc = next((t for (t, tag, _) in evs if tag == "C"), None)
        term = next(((t, tag, x) for (t, tag, x) in evs if tag in ("D", "E")), None)
        syn_nonces = [int(d["f"][2]) for d in log.get((i, "c2s"), []) if d["kind"] == "syn"]
        if tc is not None:
            # frames that count: the SYN-ACK processed at Connect, then data/ack/sync delivered while active
            rx = [tc] + [t for (t, dr, q, d) in delivered if dr == "s2c" and q == i and t >= tc and d.get("kind") in ("D", "A", "S")]
            end_active = term[0] if term else None
            # the client leaves Active also by its own disconnect (Closing): only judge up to the first disconnect call / Disconnect frame
            left = [t for (t, w, q) in calls if q == i and w in ("cdisc", "cdiscnow")] + \
                   [t for (t, dr, q, d) in delivered if dr == "s2c" and q == i and d.get("kind") == "disc" and t >= tc]
            horizon = min(left) if left else None
            if term and term[1] == "E" and term[2] == "Timeout" and (horizon is None or term[0] < horizon):
                te = term[0]
                recent = [t for t in rx if te - T < t <= te]
                if recent:
                    # the known shape (F9): nothing but the SYN-ACK was received since Connect and the deadline is active_timeout
                    # after the connect() call rather than after the handshake completed
                    t0 = next((t for (t, w, q) in calls if w == "connect" and q == i), 0)
                    cause = "deadline_counted_from_connect_call" if (all(t == tc for t in rx if t <= te) and te >= t0 + T) else "other"
                    if cause != "other":
                        attributed.add((i, te))
                    fails.append({"oracle": "timeout_sound", "detail": "client %d: Error(Timeout) at %d ms although a frame was received at %d ms (active_timeout %d ms, connected at %d ms)" %
                                  (i, te // 10**6, max(recent) // 10**6, T // 10**6, tc // 10**6), "signature": {"oracle": "timeout_sound", "side": "client", "cause": cause}})
            for s in step_times.get(i, []):
                if s <= tc or (end_active is not None and s >= end_active) or (horizon is not None and s >= horizon):
                    continue
                last = max(t for t in rx if t <= s)
                if s >= last + T:
                    fails.append({"oracle": "timeout_prompt", "detail": "client %d: still active after the step at %d ms, last frame at %d ms, active_timeout %d ms" %
                                  (i, s // 10**6, last // 10**6, T // 10**6), "signature": {"oracle": "timeout_prompt", "side": "client"}})
                    break
            if getattr(sim, "expect_no_timeout", False) and term and term[1] == "E" and (i, term[0]) not in attributed:
                cause = f21_cause(sim, ops, outs, "c", term[0])
                fails.append({"oracle": "keepalive", "detail": "client %d: Error(%s) at %d ms on an idle loss-free keepalive connection (step cadence %d ms, 4 x RTT >= %d ms, active_timeout %d ms)" %
                              (i, term[2], term[0] // 10**6, sim.dt // 10**6, getattr(sim, "rto_bound_ms", 0), sim.keepalive_T), "signature": {"oracle": "keepalive", "cause": cause}})
        else:
            # never connected: a handshake timeout needs 1 + 10 SYNs and >= 22 s
            if term and term[1] == "E" and term[2] == "Timeout":
                t0 = next((t for (t, w, q) in calls if w == "connect" and q == i), 0)
                nsyn = len([d for d in log.get((i, "c2s"), []) if d["kind"] == "syn" and d["time"] <= term[0]])
                if nsyn != 11 or term[0] - t0 < 22_000 * 10**6:
                    fails.append({"oracle": "handshake_budget", "detail": "client %d: handshake Error(Timeout) after %d SYNs, %d ms after connect()" % (i, nsyn, (term[0] - t0) // 10**6),
                                  "signature": {"oracle": "handshake_budget"}})
    # disconnect attempts: 1 + 10 copies of the request, at least 2 s apart, Error(Timeout) not before 22 s after the first copy
    for (side, dr) in (("s", "s2c"), ("c", "c2s")):
        for i in sorted(set(q for (q, d) in log if d == dr)):
            discs = [d["time"] for d in log.get((i, dr), []) if d["kind"] == "disc"]
            if not discs:
                continue
            if side == "s":
                term = next(((t, tag, x) for (t, tag, q, x) in sev if q == i and tag in ("D", "E") and t >= discs[0]), None)
            else:
                term = next(((t, tag, x) for (t, tag, x) in cev.get(i, []) if tag in ("D", "E") and t >= discs[0]), None)
            gaps = [b - a for a, b in zip(discs, discs[1:])]
            if any(g < 2_000 * 10**6 for g in gaps):
                fails.append({"oracle": "disconnect_spacing", "detail": "%s side, peer %d: disconnect requests at %s ms are less than 2 s apart" %
                              ("server" if side == "s" else "client", i, [t // 10**6 for t in discs]), "signature": {"oracle": "disconnect_spacing", "side": side}})
                break
            if term and term[1] == "E" and term[2] == "Timeout":
                n = len([t for t in discs if t <= term[0]])
                if n != 11 or term[0] - discs[0] < 22_000 * 10**6:
                    fails.append({"oracle": "disconnect_budget", "detail": "%s side, peer %d: Error(Timeout) %d ms after the first disconnect request, after %d copies (budget: 11 copies, 22000 ms)" %
                                  ("server" if side == "s" else "client", i, (term[0] - discs[0]) // 10**6, n), "signature": {"oracle": "disconnect_budget", "side": side}})
                    break
    # server side: Error(Timeout) of an established connection (no disconnect under way) only after active_timeout of silence
    if sim.srv_cfg:
        Ts = sim.srv_cfg["timeout"] * 10**6
        for (te, tag, p, x) in sev:
            if tag != "E" or x != "Timeout":
                continue
            tc = max([t for (t, g, q, _) in sev if g == "C" and q == p and t <= te] or [None], key=lambda v: -1 if v is None else v)
            if tc is None:
                continue
            if any(d["kind"] == "disc" and tc <= d["time"] <= te for d in log.get((p, "s2c"), [])):
                continue
            rx = [tc] + [t for (t, dr, q, d) in delivered if dr == "c2s" and q == p and tc <= t <= te and d.get("kind") in ("D", "A", "S")]
            if te - max(rx) < Ts:
                fails.append({"oracle": "timeout_sound", "detail": "server: Error(Timeout) for peer %d at %d ms although a frame was received at %d ms (active_timeout %d ms)" %
                              (p, te // 10**6, max(rx) // 10**6, Ts // 10**6), "signature": {"oracle": "timeout_sound", "side": "server"}})
                break
    # server side, promptness: an established connection that has been silent for active_timeout is reported (Error(Timeout))
    # by the first server step at or after the deadline - whatever else the server is busy with (other peers' handshakes, lingering
    # entries, pending timers)
    if sim.srv_cfg:
        Ts = sim.srv_cfg["timeout"] * 10**6
        sstep_times = []
        tcur = 0
        for op in ops:
            w = op.split(" ")
            if w[0] == "t": tcur = int(w[1])
            elif w[0] == "sstep": sstep_times.append(tcur)
        for p in sorted(set(q for (_, tag, q, _) in sev if tag == "C")):
            evs_p = [(t, tag, x) for (t, tag, q, x) in sev if q == p]
            for k, (tc, tag, _) in enumerate(evs_p):
                if tag != "C":
                    continue
                term = next(((t, g, x) for (t, g, x) in evs_p[k + 1:] if g in ("D", "E")), None)
                # the server leaves Active also by its own disconnect()/drop() or by the peer's disconnect request: judge up to then
                left = [t for (t, w, q) in calls if q == p and w in ("sdisc", "sdiscnow", "sdrop") and t >= tc] + \
                       [t for (t, dr, q, d) in delivered if dr == "c2s" and q == p and d.get("kind") == "disc" and t >= tc]
                horizon = min(left) if left else None
                rx = [tc] + [t for (t, dr, q, d) in delivered if dr == "c2s" and q == p and t >= tc and d.get("kind") in ("D", "A", "S")]
                for st in sstep_times:
                    if st <= tc or (term is not None and st >= term[0]) or (horizon is not None and st >= horizon):
                        continue
                    last = max(t for t in rx if t <= st)
                    if st >= last + Ts + 1_000_000:
                        fails.append({"oracle": "timeout_prompt", "detail": "server: peer %d still established after the step at %d ms, last frame at %d ms, active_timeout %d ms" %
                                      (p, st // 10**6, last // 10**6, Ts // 10**6), "signature": {"oracle": "timeout_prompt", "side": "server"}})
                        break
                else:
                    continue
                break
            else:
                continue
            break
    if getattr(sim, "expect_no_timeout", False):
        for (t, tag, p, x) in sev:
            if tag == "E" and not any(q == p for (q, _) in attributed):
                cause = f21_cause(sim, ops, outs, "s", t)
                fails.append({"oracle": "keepalive", "detail": "server: Error(%s) for peer %d at %d ms on an idle loss-free keepalive connection (step cadence %d ms, active_timeout %d ms)" % (x, p, t // 10**6, sim.dt // 10**6, sim.keepalive_T),
                              "signature": {"oracle": "keepalive", "cause": cause}})
                break
    return fails
