"""C08 — per-connection event stream is well-formed; nothing after the end."""
import vlib
from checkflow import Interactive
from props import ep_common as E

PROP = "C08"
LAKE_TARGETS = ["Uflow.Props.C08", "uflow_driver"]
TRUSTED_BASE = [
    "Lean 4.33 kernel; axioms per theorem under coverage.axioms",
    "tools/extract_consts.py (resend intervals/counts, closed timeouts)",
    "hand-written model Uflow/Model/Endpoint.lean (Server::step / Client::step as pure functions; the half connection an abstract parameter), tied to the real Client/Server over loopback UDP by the ep correspondence streams (events and every datagram compared)",
    "harness relay sockets; Linux loopback UDP delivers synchronously in send order",
]
ASSUMPTIONS = ["Server::drop(addr) is the application's own act of ending the connection and produces no event by design: the monitor treats the call as the terminal marker of that epoch"]
RULE = ("1-4 clients against one server over relays with loss/dup/reorder/delay of every datagram; random send/disconnect/disconnect_now/drop calls on both sides incl. both "
        "sides at once, timeouts racing disconnects, late and duplicated handshake and disconnect frames, step cadences 5 ms..2 s; monitor automaton per connection on "
        "both endpoints' event iterators; plus a peer reconnecting from the same address while the server's entry for its previous connection is pending / active / closing / closed / gone. Non-trivial: at least one Connect and one terminal event. Distinct by (calls made, event shapes). Plus: the client's handshake ACK lost, then the client disconnects / sends (frames reaching a Pending entry).")

def reconnect_scenario(r, it, tier, theme=None):
    """a peer that comes back from the SAME address (restarted process, NAT keeping its mapping) while the server's entry
    for its previous connection is pending, active, closing, closed or gone: a new Connect for the address only after the
    terminal event of the previous connection."""
    sim = E.EpSim(r, inter=it)
    sim.srv(8, 8, r.pick([0, 1]) if theme is None else 0, dict(E.DEFAULT_EP))
    lat = r.pick([0, 5_000_000])
    nets = {"c2s": E.Net(latency=lat), "s2c": E.Net(latency=lat)}
    sim.nets = nets
    dt = r.pick([20_000_000, 100_000_000, 500_000_000])
    sim.cli(0, dict(E.DEFAULT_EP), nets)
    sim.run(r.range(3, 12), dt, nets)
    for round_ in range(r.range(1, 3)):
        how = r.pick(["sdiscnow", "sdisc", "sdiscnow", "cdiscnow", "vanish", "sdrop", "early"])
        if theme == "unanswered" and round_ == 0:
            how = r.pick(["sdiscnow", "sdisc"])    # default configuration (no handshake errors), a server-side disconnect nobody answers, then the address returns
        if how == "early":
            pass                                   # reconnect while the previous connection is still up (or still handshaking)
        elif how == "vanish":
            pass                                   # the old client just stops (its process died); nothing is sent
        else:
            sim.call(how, 0)
        silent = how in ("sdiscnow", "sdisc", "vanish") and (r.chance(2, 3) or (theme == "unanswered" and round_ == 0))
        if silent:                                 # the old client never answers again
            nets[(0, "s2c")] = E.Net(loss=1000)
        wait = r.pick([0, 1, 3, int(3_000_000_000 // dt) + 1, int(25_000_000_000 // dt) + 1, int(25_000_000_000 // dt) + 1]) if not silent \
            else r.pick([1, int(25_000_000_000 // dt) + 1, int(25_000_000_000 // dt) + 1])
        if theme == "unanswered" and round_ == 0:
            wait = int(25_000_000_000 // dt) + 1
        sim.run(wait, dt, nets)
        nets.pop((0, "s2c"), None)
        sim.recli(0, dict(E.DEFAULT_EP), nets)
        sim.run(r.range(5, 30), dt, nets)
    return sim

def lost_ack_scenario(r, it, tier):
    """the client's handshake ACK (every copy of it, for a while) is lost: the client is connected, the server's entry is still
    pending; the client application then disconnects / sends / goes away, so Disconnect, data and sync frames reach a PENDING
    entry. The server must not report Disconnect or Receive for a connection it never reported."""
    sim = E.EpSim(r, inter=it)
    sim.srv(8, 8, r.pick([0, 1]), dict(E.DEFAULT_EP))
    lat = r.pick([0, 5_000_000])
    nets = {"c2s": E.Net(latency=lat), "s2c": E.Net(latency=lat)}
    sim.nets = nets
    dt = r.pick([5_000_000, 20_000_000, 100_000_000])
    t_heal = r.pick([1_000, 3_000, 30_000]) * 1_000_000
    def fate(sim, peer, dr, d):
        if dr == "c2s" and d.get("kind") == "hsack" and sim.time < t_heal:
            return []
        return None
    sim.fate_fn = fate
    n = r.range(1, 2)
    for i in range(n):
        sim.cli(i, dict(E.DEFAULT_EP), nets)
    sim.run(r.range(2, 6), dt, nets)
    for i in range(n):
        if r.chance(1, 2):
            sim.send("c", i, r.below(3), r.pick([1, 3]), r.range(3, 2000))
        sim.call(r.pick(["cdiscnow", "cdisc", "cdiscnow"]), i)
    sim.run(r.range(10, 40), dt, nets)
    sim.run(12, 500_000_000, nets)
    sim.fate_fn = None
    return sim

def streams(rng, tier, ctx):
    n = 24 if tier == "quick" else 400
    it = Interactive("ep"); codec = Interactive("codec")
    cases = []; meta = {}
    try:
        for i in range(n):
            r = rng.fork()
            it.op("=== gen%d" % i)
            if i % 4 == 3:
                sim = reconnect_scenario(r, it, tier, theme="unanswered" if i % 8 == 3 else None)
            elif i % 8 == 2:
                sim = lost_ack_scenario(r, it, tier)
            elif i % 4 == 1:
                sim = E.general_scenario(r, it, tier, crossing=True, lossy=(i % 8 == 1), variants=False, dt_choices=(5_000_000, 20_000_000), n_clients=r.range(1, 3), limits=(8, 8))
            else:
                sim = E.general_scenario(r, it, tier, forge=(i % 3 == 0), codec=codec, variants=(i % 2 == 0))
            sim.run(25, 2_000_000_000, sim.nets, None)      # let timers run out
            cid = "e%d" % i
            cases.append((cid, sim.ops)); meta[cid] = sim
    finally:
        it.close(); codec.close()
    return [{"name": "events", "mode": "ep", "cases": cases, "meta": meta, "case_timeout": 60}]

def monitor(events, who, server=False):
    """events: [(time, tag)] for one address (server) or one client object; returns error text or None.
    Grammar per connection: C? R* (D|E)?; R and D need a preceding C; nothing after the terminal event.
    On the server every SYN delivered from the address while no connection is established opens a connection
    attempt; an Error without Connect (refused or timed-out handshake, reported when enable_handshake_errors
    is set) must be matched by an open attempt. `drop` is the application's own terminal marker. (Duplicate SYNs
    of one handshake are counted as attempts too: lenient, never over-demanding.)"""
    conn = False; attempts = 0 if server else 1; ended = False
    for (t, tag) in events:
        ms = t // 10**6
        if tag == "syn":
            # counted also while a connection is established: the same step() may end that connection before it
            # reads this SYN (lenient, never over-demanding; a Connect while `conn` is still an error below)
            attempts += 1
        elif tag == "C":
            if conn:
                return "%s: Connect while a connection is established (t=%d ms)" % (who, ms)
            if attempts == 0:
                return "%s: Connect without a connection attempt / after the terminal event (t=%d ms)" % (who, ms)
            conn = True; attempts = 0 if not server else attempts - 1
        elif tag == "R":
            if not conn:
                return "%s: Receive without an established connection (t=%d ms)" % (who, ms)
        elif tag == "D":
            if not conn:
                return "%s: Disconnect without an established connection / after the terminal event (t=%d ms)" % (who, ms)
            conn = False
        elif tag == "E":
            if conn:
                conn = False
            elif attempts > 0:
                attempts -= 1
            else:
                return "%s: Error after the terminal event (t=%d ms)" % (who, ms)
        elif tag == "drop":
            conn = False
    return None

def oracle(stream, cid, ops, outs):
    fails = E.trap_failures(ops, outs)
    tl = []
    sev, cev, log, delivered, calls = E.replay(ops, outs, timeline=tl)
    # client side: one connection per client object
    for i, evs in cev.items():
        m = monitor([(t, tag) for (t, tag, _) in evs], "client %s" % i)
        if m:
            fails.append({"oracle": "event_grammar", "detail": m, "signature": {"oracle": "event_grammar", "side": "client"}})
    # server side per address, with drop calls interleaved as terminal markers
    peers = set(p for (_, _, p, _) in sev)
    for p in peers:
        # in operation order: a datagram is handed to the server's socket (fwd / raw) before the step() that reads it, and a
        # drop() issued right after a step() comes after that step's events although the virtual time is the same
        seq = [(t, 0, tag) for (t, tag, q) in tl if q == p]
        m = monitor([(t, tag) for (t, _, tag) in seq], "server/peer %d" % p, server=True)
        if m:
            fails.append({"oracle": "event_grammar", "detail": m, "signature": {"oracle": "event_grammar", "side": "server"}})
    return fails

def signature(ops, outs):
    evs = "".join(sorted(set(e[0] for op, o in zip(ops, outs) if op.startswith(("sstep", "cstep")) and o.startswith("ev") for e in o.split("|")[0].split()[1:])))
    if "C" not in evs or not ("D" in evs or "E" in evs):
        return None
    calls = tuple(sorted(set(op.split(" ")[0] for op in ops if op.split(" ")[0] in ("cdisc", "cdiscnow", "sdisc", "sdiscnow", "sdrop"))))
    return (evs, calls, min(len(ops) // 200, 8))
