"""C12 — transmission behaviour matches the send mode."""
import vlib
from checkflow import Interactive
from props import hc_common as H
from gen_hc import Sim, Net, pick_cfg, random_traffic, pick_len, F

PROP = "C12"
LAKE_TARGETS = ["Uflow.Props.C12", "Uflow.Props.C12Ts", "uflow_driver"]
PROPS_FILES = ["C12", "C12Ts"]
TRUSTED_BASE = [
    "Lean 4.33 kernel; axioms per theorem under coverage.axioms",
    "tools/extract_consts.py (MAX_SEND_COUNT, MAX_FRAGMENT_SIZE)",
    "hand-written models PSend (queue, TimeSensitive drop by flush id, resend flag), HalfConn (pending / resend queues incl. the std BinaryHeap order, emitters), tied to the code by hc correspondence: every emitted data frame's datagram list (packet id, fragment id, payload fnv) is compared",
]
ASSUMPTIONS = ["a fragment on the wire is identified with the submitted packet through the fnv of its payload slice (payloads are pseudo-random and unique)"]
RULE = ("send histories of all modes with flush budgets that cut packets across flushes (low ceilings), acks arriving between the fragments of one packet, loss, all cadences; "
        "oracle on the emitted data frames: every fragment of an Unreliable/TimeSensitive packet appears at most once; a TimeSensitive packet none of whose fragments was "
        "emitted in the flush following its submission never appears; no fragment of any packet appears after the sender's packet window base has moved past the packet. "
        "Non-trivial: a multi-fragment packet was cut across flushes or a fragment was resent. Distinct by (modes seen, cuts, resends, windows). Round-6 family: Persistent / Reliable packets of 33-70 fragments, partially acknowledged, single fragments lost.")

def streams(rng, tier, ctx):
    n = 24 if tier == "quick" else 500
    it = Interactive("hc")
    cases = []; meta = {}
    try:
        for i in range(n):
            r = rng.fork()
            it.op("=== gen%d" % i)
            if i % 6 == 2:
                # per-fragment acknowledgement flags of a packet with more than 32 / 64 fragments, one fragment lost
                sim = H.big_packet_scenario(r, it, modes=(2, 3))
                H.finish(sim, drain=True, max_ticks=200)
                cid = "m%d" % i
                cases.append((cid, sim.ops)); meta[cid] = sim
                continue
            cfg = pick_cfg(r)
            cfg["bwA"] = cfg["bwB"] = r.pick([20000, 100000, 2_000_000])
            cfg["allocA"] = cfg["allocB"] = 200000
            sim = Sim(r, cfg, inter=it)
            lat = r.pick([0, 5_000_000, 60_000_000])
            netA = Net(loss=r.pick([0, 100, 300]), latency=lat, dup=r.pick([0, 100]))
            netB = Net(loss=r.pick([0, 100, 400]), latency=lat)
            dt = r.pick([1_000_000, 5_000_000, 16_000_000, 50_000_000])
            def tr(sim, ep):
                if ep == "A" and sim.tick < 70 and r.chance(1, 2):
                    for _ in range(r.range(1, 4)):
                        sim.send("A", r.below(4), r.pick([0, 0, 1, 1, 2, 3]), r.pick([10, 100, F, F + 1, 3 * F + 5, 5 * F, r.range(8, 8000)]))
            if i % 6 == 5:
                # a TimeSensitive packet as the LAST thing queued behind packets that use up the flush credit: nothing is left in
                # the send queue at the next step(), and credit returns later
                def tr(sim, ep, state={"n": 0}):
                    if ep == "A" and sim.tick in (1, 9, 20, 33):
                        for _ in range(r.range(1, 3)):
                            sim.send("A", r.below(4), r.pick([3, 1, 2]), r.pick([F, 1400, 2 * F]))
                        sim.send("A", r.below(4), 0, r.pick([10, 100, F + 1, 3 * F]))
            sim.run(r.range(40, 120), dt, netA, netB, tr, probe_every=1)
            sim.meta = {"cfg": cfg}
            H.finish(sim, drain=True, max_ticks=200)
            cid = "m%d" % i
            cases.append((cid, sim.ops)); meta[cid] = sim
    finally:
        it.close()
    out = [{"name": "modes", "mode": "hc", "cases": cases, "meta": meta, "case_timeout": 120}]
    # known finding F22 (theorem C12_ts_drop_wrap_reachable_witness): the flush id is a wrapping u32 and staleness is tested with
    # `!=`, so a TimeSensitive packet that is still queued exactly 2^32 step() calls after it was submitted counts as fresh again.
    # The history below is run on the real code in every run (2^32 step() calls at one instant: about 45 s); implementation only -
    # the model side of it is the theorem, the executable model would need hours for the same loop.
    class Null:
        def op(self, line, timeout=None): return "ok"
    from checkflow import SplitMix
    cfg = dict(pick_cfg(SplitMix(22)), bwA=2_000_000, bwB=2_000_000, allocA=1_000_000, allocB=1_000_000, fw=4096, pw=4096)
    sim = Sim(SplitMix(22), cfg, inter=Null())
    sim.tick += 1; sim.set_time(1_000_000)
    sim.send("A", 0, 1, 1400)                 # uses up the initial credit (Unreliable: never re-sent)
    sim.op("A flush"); sim.op("A step")
    sim.tick += 1; sim.set_time(1_000_000)    # a new tick of the oracle's clock, the same instant of the endpoint's
    sim.send("A", 1, 0, 100)                  # TimeSensitive, queued with the current flush id; no credit: not sent in this flush
    sim.op("A flush"); sim.op("A step")       # the next step(): the packet is stale from now on
    sim.op("A stepn %d" % (2**32 - 2))
    sim.tick += 1; sim.set_time(2_001_000_000)
    sim.op("A step")                          # credit is back, and the flush id is the packet's again
    sim.op("A flush"); sim.op("A probe")
    sim.meta = {"cfg": cfg}
    out.append({"name": "flush_id_wrap", "mode": "hc", "cases": [("w0", sim.ops)], "meta": {"w0": sim}, "case_timeout": 400, "impl_only": True})
    return out

def signature(ops, outs):
    nf = sum(o.count(":D,") for op, o in zip(ops, outs) if op.endswith(" flush"))
    if nf < 3:
        return None
    modes = tuple(sorted(set(op.split(" ")[4] for op in ops if op.startswith("A send"))))
    return (ops[1][:50], modes, min(nf // 10, 9))

def oracle(stream, cid, ops, outs):
    import gen_hc
    fails = H.trap_failures(ops, outs)
    sim = stream["meta"][cid]
    pk = sim.sent["A"]
    tick = 0; send_tick = {}; nsend = 0; nsteps = 0; steps_at_send = {}
    seq_idx = {}          # wire sequence id -> packet idx (identified at fragment 0: channel, fragment count, length and fnv of fragment 0, monotone)
    last_idx = -1
    count = {}            # (packet idx, frag) -> transmissions
    first_tick = {}       # packet idx -> tick of first transmission
    base_passed = {}      # packet idx -> tick at which the window base was seen past it
    reported = {}         # packet idx -> tick at which an ack frame of the (honest) receiver reporting a window base past it was handled by A
    carried = {}          # A frame id -> [(packet idx, frag)]
    acked_at = {}         # (packet idx, frag) -> tick at which an acknowledgement naming a frame that carried it was surely accepted
    bframes = []          # B's emitted frames in order
    log_base = None; log_next = None      # A's frame log span at the end of the previous tick (probe), raised by acks handled since
    U32 = 1 << 32; probe_tick = -5
    for op, o in zip(ops, outs):
        t = op.split(" ")
        if t[0] == "t":
            tick += 1
        elif t[0] == "A" and t[1] == "send" and o == "ok":
            send_tick[nsend] = tick; steps_at_send[nsend] = nsteps; nsend += 1
        elif t[0] == "A" and t[1] == "step" and o == "ok":
            nsteps += 1
        elif t[0] == "A" and t[1] == "stepn" and o == "ok":
            nsteps += int(t[2])
        elif t[0] == "A" and t[1] == "flush" and o and o[0].isdigit():
            for f in gen_hc.parse_frames(o):
                if f["kind"] != "D":
                    continue
                for d in f["dgs"]:
                    if d["seq"] not in seq_idx:
                        if d["frag"] != 0:
                            fails.append({"oracle": "first_fragment_first", "detail": "fragment %d of wire packet %d transmitted before fragment 0" % (d["frag"], d["seq"]),
                                          "signature": {"oracle": "first_fragment_first"}})
                            return fails
                        for j in range(last_idx + 1, len(pk)):
                            p = pk[j]
                            if p.chan == d["chan"] and len(p.frag_fnv) == d["last"] + 1 and p.frag_fnv[0] == d["dfnv"] and min(p.len, F) == d["dlen"]:
                                seq_idx[d["seq"]] = j; last_idx = j
                                break
                        else:
                            fails.append({"oracle": "known_packet", "detail": "datagram seq=%d frag=0 on the wire matches no submitted packet after #%d" % (d["seq"], last_idx),
                                          "signature": {"oracle": "known_packet"}})
                            return fails
                        # everything between the previous identified packet and this one was never transmitted: must be TimeSensitive
                    j = seq_idx[d["seq"]]; p = pk[j]; k = d["frag"]
                    if k >= len(p.frag_fnv) or p.frag_fnv[k] != d["dfnv"]:
                        fails.append({"oracle": "fragment_bytes", "detail": "fragment %d of packet #%d on the wire differs from the submitted bytes" % (k, j),
                                      "signature": {"oracle": "fragment_bytes"}})
                        return fails
                    count[(j, k)] = count.get((j, k), 0) + 1
                    first_tick.setdefault(j, tick)
                    carried.setdefault(f["id"], []).append((j, k))
                    if (j, k) in acked_at and tick > acked_at[(j, k)]:
                        fails.append({"oracle": "no_send_after_ack", "detail": "fragment %d of packet #%d (mode %d) transmitted at tick %d although an acknowledgement of a frame carrying it was processed at tick %d" %
                                      (k, j, p.mode, tick, acked_at[(j, k)]), "signature": {"oracle": "no_send_after_ack"}})
                        return fails
                    if j in base_passed and tick > base_passed[j]:
                        fails.append({"oracle": "no_send_after_window_passed", "detail": "fragment %d of packet #%d (mode %d) transmitted at tick %d after the window base moved past it at tick %d" %
                                      (k, j, p.mode, tick, base_passed[j]), "signature": {"oracle": "no_send_after_window_passed"}})
                        return fails
                    if j in reported and tick > reported[j]:
                        fails.append({"oracle": "no_send_after_receiver_passed", "detail": "fragment %d of packet #%d (mode %d, wire id %d) transmitted at tick %d although an acknowledgement frame "
                                      "reporting the receiver's window base past it was handled at tick %d" % (k, j, p.mode, d["seq"], tick, reported[j]),
                                      "signature": {"oracle": "no_send_after_receiver_passed"}})
                        return fails
                    if p.mode in (0, 1) and count[(j, k)] > 1:
                        fails.append({"oracle": "at_most_once", "detail": "fragment %d of %s packet #%d transmitted %d times" %
                                      (k, "TimeSensitive" if p.mode == 0 else "Unreliable", j, count[(j, k)]), "signature": {"oracle": "at_most_once", "mode": p.mode}})
                        return fails
                    if p.mode == 0 and first_tick[j] > send_tick.get(j, 0):
                        sig = {"oracle": "ts_drop"}
                        if nsteps - steps_at_send.get(j, 0) >= 2**32:
                            sig["cause"] = "flush_id_wrapped_after_2^32_steps"
                        fails.append({"oracle": "ts_drop", "detail": "TimeSensitive packet #%d submitted at tick %d (before that tick's flush and step) put its first fragment on the wire only at tick %d, %d step() calls later" %
                                      (j, send_tick.get(j, 0), first_tick[j], nsteps - steps_at_send.get(j, 0)), "signature": sig})
                        return fails
        elif t[0] == "B" and t[1] == "flush" and o and o[0].isdigit():
            bframes.extend(gen_hc.parse_frames(o))
        elif t[0] == "fwd" and t[1] == "B" and len(t) == 4 and o == "ok":
            f = bframes[int(t[2])] if int(t[2]) < len(bframes) else None
            if f and f["kind"] == "A":
                # the receiver's own report (these streams forge no frames): every packet A has put on the wire whose id lies
                # behind the reported base has been passed by the receiver's window
                for sq, j in seq_idx.items():
                    if j not in reported and ((f["pbase"] - sq - 1) % (1 << 20)) < (1 << 19):
                        reported[j] = tick
            if f and f["kind"] == "A" and log_base is not None and probe_tick == tick - 1:
                for (gb, bits, nonce) in f["groups"]:
                    size = bits.bit_length()
                    if size == 0:
                        continue
                    # accepted for certain when every named frame is inside A's remembered span
                    if all(((gb + i - log_base) % U32) < ((log_next - log_base) % U32) for i in range(size)):
                        for i in range(size):
                            if bits >> i & 1:
                                for jk in carried.get((gb + i) % U32, []):
                                    acked_at.setdefault(jk, tick)
                # advance_transfer_window may cull the log up to (at most) the acknowledged window base
                if ((f["fbase"] - log_base) % U32) <= ((log_next - log_base) % U32):
                    log_base = f["fbase"]
        elif t[0] == "A" and t[1] == "probe" and o.startswith("fa="):
            pr = gen_hc.parse_probe(o)
            log_base = int(pr["fq"][1]); log_next = int(pr["fq"][2]); probe_tick = tick
            base = int(pr["ps"][0])
            for sq, j in seq_idx.items():
                if j not in base_passed and ((base - sq - 1) % (1 << 20)) < (1 << 19):
                    base_passed[j] = tick
    # packets skipped by the identification must all be TimeSensitive (anything else is never dropped at the sender)
    ided = set(seq_idx.values())
    if ided:
        for j in range(max(ided)):
            if j not in ided and pk[j].mode != 0:
                fails.append({"oracle": "only_ts_dropped", "detail": "packet #%d (mode %d) was never transmitted although later packets were" % (j, pk[j].mode),
                              "signature": {"oracle": "only_ts_dropped"}})
                break
    return fails
