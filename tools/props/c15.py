"""C15 — only genuine, fresh acknowledgements change sender state."""
import vlib
from checkflow import Interactive
from props import hc_common as H
from gen_hc import Sim, Net, pick_cfg, random_traffic, pick_len, parse_frames

PROP = "C15"
LAKE_TARGETS = ["Uflow.Props.C15", "Uflow.Props.C15Hc", "uflow_driver"]
PROPS_FILES = ["C15", "C15Hc"]
TRUSTED_BASE = [
    "Lean 4.33 kernel; axioms per theorem under coverage.axioms",
    "tools/extract_consts.py",
    "hand-written model Uflow/Model/FrameQ.lean (frame log, reorder buffer, loss intervals, feedback) + HalfConn.handleAckFrame, tied to the code by the hc correspondence streams",
]
ASSUMPTIONS = ["a duplicated ack frame may legitimately be re-parsed; 'no effect' is judged on everything the sender emits and reports afterwards (frames, rtt_s, send rate, counters)"]
RULE = ("twin runs: a baseline two-endpoint scenario and a copy that differs only by injected acknowledgements at one endpoint — replays of ack frames already "
        "delivered (immediately or much later), ack groups naming logged frames with the wrong nonce parity, groups naming unknown/forgotten/future frame ids; "
        "every output of the victim after the first injection (frames, counters, rtt bits, send rate) must coincide with the baseline. Non-trivial: at least one "
        "injected ack frame parsed and the victim had unacknowledged frames. Distinct by (injection kinds, windows, volume).")

U32 = 0xFFFFFFFF

def build(rng, it, codec, idx, tier):
    """returns (baseline ops, twin ops, index map twin->baseline, kinds)"""
    r = rng
    cfg = pick_cfg(r)
    cfg["fbA"] = r.pick([cfg["fbA"], U32 - 2, U32 - 1, U32])      # frame log straddling the u32 wrap
    sim = Sim(r, cfg, inter=it)
    net = Net(loss=r.pick([0, 0, 100, 300]), latency=r.pick([0, 1_000_000, 30_000_000]), jitter=r.pick([0, 2_000_000]))
    dt = r.pick([1_000_000, 5_000_000, 20_000_000])
    traffic = random_traffic(r, rate_pm=600, max_len=4000, eps=("A",))
    twin = []        # ops of the twin run
    marks = []       # (len(twin ops) at injection, injected op)
    kinds = []
    rounds = r.range(8, 30)
    for k in range(rounds):
        sim.run(r.range(1, 4), dt, net, net, traffic, probe_every=1)
        if sim.dead:
            break
        if r.chance(1, 2):
            continue
        # choose an injection for endpoint A (the sender under test)
        inj = None
        ackframes = [f for f in sim.frames["B"] if f["kind"] == "A" and ("B", f["idx"]) in sim.arrived]
        how = r.weighted([("replay", 4), ("badnonce", 4), ("unknown", 3), ("oldreplay", 2)])
        if how in ("replay", "oldreplay") and ackframes:
            f = ackframes[0] if how == "oldreplay" else r.pick(ackframes[-3:])
            inj = "fwd B %d A" % f["idx"]
        elif how == "badnonce":
            dfs = [f for f in sim.frames["A"] if f["kind"] == "D"][-8:]
            if dfs:
                f0 = r.pick(dfs)
                span = [g for g in dfs if 0 <= ((g["id"] - f0["id"]) & U32) < 32]
                chosen = [g for g in span if r.chance(2, 3)] or [f0]
                bits = 0; par = 0
                for g in chosen:
                    bits |= 1 << ((g["id"] - f0["id"]) & U32); par ^= g["nonce"]
                p = sim.probe("A")
                if p:
                    txt = "ack %s %s 1 %d %d %d" % (p["fq"][0], p["ps"][0], f0["id"], bits, 1 - par)
                    hx = codec.op("enc " + txt)
                    inj = "A raw " + hx
        elif how == "unknown":
            p = sim.probe("A")
            if p:
                nxt = int(p["fq"][2]); lb = int(p["fq"][1])
                # every group names at least one frame id outside the log [lb, nxt)
                base = r.pick([nxt, (nxt + 1) & U32, (lb - 1) & U32, (lb - 5) & U32, (nxt + 0x80000000) & U32])
                bits = r.pick([1, 3, 5, 7, 0x80000001, 0xFF])
                txt = "ack %s %s 2 %d %d 0 %d %d 1" % (p["fq"][0], p["ps"][0], base, bits, base, bits)
                inj = "A raw " + codec.op("enc " + txt)
        if inj:
            marks.append((len(sim.ops), inj)); kinds.append(how)
    H.finish(sim, drain=False)
    for ep in ("A", "B"):
        sim.probe(ep); sim.get(ep)
    base_ops = list(sim.ops)
    twin_ops = []; amap = []; mi = 0
    for i, op in enumerate(base_ops):
        while mi < len(marks) and marks[mi][0] == i:
            twin_ops.append(marks[mi][1]); amap.append(None); mi += 1
        twin_ops.append(op); amap.append(i)
    return sim, base_ops, twin_ops, amap, kinds

def streams(rng, tier, ctx):
    n = 30 if tier == "quick" else 500
    it = Interactive("hc"); codec = Interactive("codec")
    cases = []; meta = {}
    try:
        for i in range(n):
            r = rng.fork()
            it.op("=== gen%d" % i)
            sim, base_ops, twin_ops, amap, kinds = build(r, it, codec, i, tier)
            if not kinds:
                continue
            cases.append(("b%d" % i, base_ops)); cases.append(("t%d" % i, twin_ops))
            meta["b%d" % i] = {"sim": sim, "kinds": kinds}
            meta["t%d" % i] = {"sim": sim, "map": amap, "base": "b%d" % i, "kinds": kinds}
    finally:
        it.close(); codec.close()
    return [{"name": "twins", "mode": "hc", "cases": cases, "meta": meta, "case_timeout": 60}]

def signature(ops, outs):
    inj = [(op, o) for op, o in zip(ops, outs) if (op.startswith("A raw") or (op.startswith("fwd B") and op.endswith(" A")))]
    if not inj:
        return None
    return (ops[1][:40], len(inj), min(len(ops) // 100, 9))

def oracle(stream, cid, ops, outs):
    return H.trap_failures(ops, outs)

def stream_oracle(stream, impl):
    fails = []
    for cid, m in stream["meta"].items():
        if "map" not in m:
            continue
        touts = impl.get(cid, []); bouts = impl.get(m["base"], [])
        tops = dict(stream["cases"])[cid]
        first_inj = next((k for k, b in enumerate(m["map"]) if b is None), None)
        for k, b in enumerate(m["map"]):
            if b is None or k >= len(touts) or b >= len(bouts):
                continue
            if touts[k] != bouts[b]:
                # which injection kind preceded
                prev = [j for j in range(k) if m["map"][j] is None]
                inj_op = tops[prev[-1]] if prev else "?"
                kind = "replay" if inj_op.startswith("fwd") else "crafted"
                what = tops[k].split(" ")[1] if len(tops[k].split(" ")) > 1 else tops[k]
                fails.append((cid, {"oracle": "ack_no_effect", "detail": "after injected `%s`: op `%s` gives `%s` but `%s` in the run without the injection"
                                     % (inj_op[:80], tops[k][:60], touts[k][:160], bouts[b][:160]),
                                     "signature": {"oracle": "ack_no_effect", "inj": kind, "diverges_at": what}}))
                break
    return fails
