"""C15 — only genuine, fresh acknowledgements change sender state."""
import vlib
from checkflow import Interactive
from props import hc_common as H
from gen_hc import Sim, Net, pick_cfg, random_traffic, pick_len, parse_frames

PROP = "C15"
LAKE_TARGETS = ["Uflow.Props.C15", "Uflow.Props.C15Hc", "uflow_driver"]
PROPS_FILES = ["C15", "C15Hc"]
TRUSTED_BASE = [
    "Lean 4.33 kernel; axioms per theorem under coverage.axioms",
    "tools/extract_consts.py",
    "hand-written model Uflow/Model/FrameQ.lean (frame log, reorder buffer, loss intervals, feedback) + HalfConn.handleAckFrame, tied to the code by the hc correspondence streams",
]
ASSUMPTIONS = ["a duplicated ack frame may legitimately be re-parsed; 'no effect' is judged on everything the sender emits and reports afterwards (frames, rtt_s, send rate, counters)"]
RULE = ("twin runs: a baseline two-endpoint scenario and a copy that differs only by injected acknowledgements at one endpoint — replays of ack frames already "
        "delivered (immediately or much later), ack groups naming logged frames with the wrong nonce parity, groups naming unknown/forgotten/future frame ids, groups starting inside the log and reaching past the newest sent frame (both nonce bits); "
        "every output of the victim after the first injection (frames, counters, rtt bits, send rate) must coincide with the baseline. Non-trivial: at least one "
        "injected ack frame parsed and the victim had unacknowledged frames. Distinct by (injection kinds, windows, volume). Second stream `overlap`: crafted groups fresh for an old frame and repeating a newer one; oracle rtt_sample (smoothed RTT = RFC 5348 average of the exact samples of the newest newly acknowledged frame).")

U32 = 0xFFFFFFFF

def build(rng, it, codec, idx, tier):
    """returns (baseline ops, twin ops, index map twin->baseline, kinds)"""
    r = rng
    cfg = pick_cfg(r)
    cfg["fbA"] = r.pick([cfg["fbA"], U32 - 2, U32 - 1, U32])      # frame log straddling the u32 wrap
    sim = Sim(r, cfg, inter=it)
    net = Net(loss=r.pick([0, 0, 100, 300]), latency=r.pick([0, 1_000_000, 30_000_000]), jitter=r.pick([0, 2_000_000]))
    dt = r.pick([1_000_000, 5_000_000, 20_000_000])
    traffic = random_traffic(r, rate_pm=600, max_len=4000, eps=("A",))
    twin = []        # ops of the twin run
    marks = []       # (len(twin ops) at injection, injected op)
    kinds = []
    rounds = r.range(8, 30)
    for k in range(rounds):
        sim.run(r.range(1, 4), dt, net, net, traffic, probe_every=1)
        if sim.dead:
            break
        if r.chance(1, 2):
            continue
        # choose an injection for endpoint A (the sender under test)
        inj = None
        ackframes = [f for f in sim.frames["B"] if f["kind"] == "A" and ("B", f["idx"]) in sim.arrived]
        how = r.weighted([("replay", 4), ("badnonce", 4), ("unknown", 3), ("oldreplay", 2), ("straddle_next", 3)])
        if how in ("replay", "oldreplay") and ackframes:
            f = ackframes[0] if how == "oldreplay" else r.pick(ackframes[-3:])
            inj = "fwd B %d A" % f["idx"]
        elif how == "badnonce":
            dfs = [f for f in sim.frames["A"] if f["kind"] == "D"][-8:]
            if dfs:
                f0 = r.pick(dfs)
                span = [g for g in dfs if 0 <= ((g["id"] - f0["id"]) & U32) < 32]
                chosen = [g for g in span if r.chance(2, 3)] or [f0]
                bits = 0; par = 0
                for g in chosen:
                    bits |= 1 << ((g["id"] - f0["id"]) & U32); par ^= g["nonce"]
                p = sim.probe("A")
                if p:
                    txt = "ack %s %s 1 %d %d %d" % (p["fq"][0], p["ps"][0], f0["id"], bits, 1 - par)
                    hx = codec.op("enc " + txt)
                    inj = "A raw " + hx
        elif how == "unknown":
            p = sim.probe("A")
            if p:
                nxt = int(p["fq"][2]); lb = int(p["fq"][1])
                # every group names at least one frame id outside the log [lb, nxt)
                base = r.pick([nxt, (nxt + 1) & U32, (lb - 1) & U32, (lb - 5) & U32, (nxt + 0x80000000) & U32])
                bits = r.pick([1, 3, 5, 7, 0x80000001, 0xFF])
                txt = "ack %s %s 2 %d %d 0 %d %d 1" % (p["fq"][0], p["ps"][0], base, bits, base, bits)
                inj = "A raw " + codec.op("enc " + txt)
        elif how == "straddle_next":
            # a group that starts at a frame still in the log and reaches past the newest frame sent: it names frames that were
            # never sent, so it must be rejected as a whole - with either nonce bit, i.e. also when the nonce happens to be the
            # parity of the sent frames it covers (round-7 change C15-g)
            p = sim.probe("A")
            if p:
                nxt = int(p["fq"][2]); lb = int(p["fq"][1])
                inlog = (nxt - lb) & U32
                if inlog >= 1:
                    d = r.range(1, min(inlog, 6))
                    base = (nxt - d) & U32
                    low = r.range(1, (1 << d) - 1) if d > 1 else 1           # at least one sent frame claimed
                    high = r.pick([1, 3, 5]) << d                             # and at least one frame that was never sent
                    bits = (low | high) & 0xFFFFFFFF
                    txt = "ack %s %s 2 %d %d 0 %d %d 1" % (p["fq"][0], p["ps"][0], base, bits, base, bits)
                    inj = "A raw " + codec.op("enc " + txt)
        if inj:
            marks.append((len(sim.ops), inj)); kinds.append(how)
    H.finish(sim, drain=False)
    for ep in ("A", "B"):
        sim.probe(ep); sim.get(ep)
    base_ops = list(sim.ops)
    twin_ops = []; amap = []; mi = 0
    for i, op in enumerate(base_ops):
        while mi < len(marks) and marks[mi][0] == i:
            twin_ops.append(marks[mi][1]); amap.append(None); mi += 1
        twin_ops.append(op); amap.append(i)
    return sim, base_ops, twin_ops, amap, kinds

def streams(rng, tier, ctx):
    n = 30 if tier == "quick" else 500
    it = Interactive("hc"); codec = Interactive("codec")
    cases = []; meta = {}
    try:
        for i in range(n):
            r = rng.fork()
            it.op("=== gen%d" % i)
            sim, base_ops, twin_ops, amap, kinds = build(r, it, codec, i, tier)
            if not kinds:
                continue
            cases.append(("b%d" % i, base_ops)); cases.append(("t%d" % i, twin_ops))
            meta["b%d" % i] = {"sim": sim, "kinds": kinds}
            meta["t%d" % i] = {"sim": sim, "map": amap, "base": "b%d" % i, "kinds": kinds}
    finally:
        it.close(); codec.close()
    out = [{"name": "twins", "mode": "hc", "cases": cases, "meta": meta, "case_timeout": 60}]
    # overlapping groups: an acknowledgement that is fresh for an OLD frame and at the same time repeats the acknowledgement of a frame
    # sent LATER. The repeated part must not contribute: the RTT sample is taken from the newest NEWLY acknowledged frame only.
    # A sends data frames f0 .. fk at distinct times (no real ack ever returns), group 1 acknowledges the later frames, group 2 names
    # f0 and the later frames again. Oracle: the smoothed RTT after each group is the RFC 5348 average of the exact samples.
    it = Interactive("hc"); codec = Interactive("codec")
    ocases = []; ometa = {}
    try:
        for i in range(8 if tier == "quick" else 150):
            r = rng.fork()
            it.op("=== geno%d" % i)
            cfg = pick_cfg(r); cfg["bwA"] = cfg["bwB"] = 20_000_000; cfg["keepalive"] = None
            sim = Sim(r, cfg, inter=it)
            dead = Net(loss=1000)
            fr = []
            t = 1_000_000
            for k in range(r.range(2, 4)):
                sim.tick += 1; sim.set_time(t)
                sim.op("A step")                       # the half connection's clock is the time of its last step()
                sim.send("A", r.below(3), 1, r.pick([10, 50, 200]))
                got = [f for f in sim.flush("A", dead) if f["kind"] == "D"]
                if got:
                    fr.append((got[0], t))
                t += r.range(30, 150) * 1_000_000       # everything happens within the initial resend timeout: older frames are forgotten
            if len(fr) < 2 or sim.dead:
                continue
            f0, t0 = fr[0]
            span = ((fr[-1][0]["id"] - f0["id"]) & U32)
            if span >= 32:
                continue
            def group(frames):
                base = frames[0][0]["id"]; bits = 0; par = 0
                for (f, _) in frames:
                    bits |= 1 << ((f["id"] - base) & U32); par ^= f["nonce"]
                return base, bits, par
            expect = []
            for frames in (fr[1:], fr):
                t += r.range(30, 150) * 1_000_000
                sim.tick += 1; sim.set_time(t)
                sim.op("A step")
                p = sim.probe("A")
                if not p:
                    break
                base, bits, par = group(frames)
                hx = codec.op("enc ack %s %s 1 %d %d %d" % (p["fq"][0], p["ps"][0], base, bits, par))
                sim.op("A raw " + hx); sim.op("A step"); sim.get("A")
                # newest newly acknowledged frame: the last of fr[1:] for the first group, f0 for the second
                newest = frames[-1][1] if frames is not fr else t0
                expect.append((len(sim.ops) - 1, (t - newest) // 1_000_000))
            sim.meta = {"cfg": cfg}
            ocases.append(("o%d" % i, sim.ops)); ometa["o%d" % i] = {"sim": sim, "expect": expect, "kinds": ["overlap"]}
    finally:
        it.close(); codec.close()
    out.append({"name": "overlap", "mode": "hc", "cases": ocases, "meta": ometa, "case_timeout": 60})
    return out

def signature(ops, outs):
    inj = [(op, o) for op, o in zip(ops, outs) if (op.startswith("A raw") or (op.startswith("fwd B") and op.endswith(" A")))]
    if not inj:
        return None
    return (ops[1][:40], len(inj), min(len(ops) // 100, 9))

def oracle(stream, cid, ops, outs):
    fails = H.trap_failures(ops, outs)
    m = stream["meta"].get(cid) or {}
    if stream["name"] == "overlap" and "expect" in m:
        import struct
        rtt = None
        for (k, sample_ms) in m["expect"]:
            if k >= len(outs) or not outs[k].startswith("sbs="):
                break
            v = dict(x.split("=") for x in outs[k].split(" ")).get("rtt", "-")
            if v == "-":
                break          # the frames had already been forgotten (older than the resend timeout): nothing to compare
            got = struct.unpack("<d", struct.pack("<Q", int(v)))[0]
            want = sample_ms / 1000.0 if rtt is None else 0.9 * rtt + 0.1 * sample_ms / 1000.0
            if abs(got - want) > 0.0015:
                fails.append({"oracle": "rtt_sample", "detail": "smoothed RTT %.4f s after the acknowledgement at op#%d; the newest NEWLY acknowledged frame was sent %d ms earlier, "
                              "which gives %.4f s (frames acknowledged before must not contribute)" % (got, k, sample_ms, want), "signature": {"oracle": "rtt_sample"}})
                break
            rtt = got
    return fails

def stream_oracle(stream, impl):
    fails = []
    for cid, m in stream["meta"].items():
        if "map" not in m:
            continue
        touts = impl.get(cid, []); bouts = impl.get(m["base"], [])
        tops = dict(stream["cases"])[cid]
        first_inj = next((k for k, b in enumerate(m["map"]) if b is None), None)
        for k, b in enumerate(m["map"]):
            if b is None or k >= len(touts) or b >= len(bouts):
                continue
            if touts[k] != bouts[b]:
                # which injection kind preceded
                prev = [j for j in range(k) if m["map"][j] is None]
                inj_op = tops[prev[-1]] if prev else "?"
                kind = "replay" if inj_op.startswith("fwd") else "crafted"
                what = tops[k].split(" ")[1] if len(tops[k].split(" ")) > 1 else tops[k]
                fails.append((cid, {"oracle": "ack_no_effect", "detail": "after injected `%s`: op `%s` gives `%s` but `%s` in the run without the injection"
                                     % (inj_op[:80], tops[k][:60], touts[k][:160], bouts[b][:160]),
                                     "signature": {"oracle": "ack_no_effect", "inj": kind, "diverges_at": what}}))
                break
    return fails
