"""C20 — send_buffer_size() is exact and returns to zero."""
import vlib
from checkflow import Interactive
from props import hc_common as H
from gen_hc import Sim, Net, pick_cfg, random_traffic, pick_len, F

PROP = "C20"
LAKE_TARGETS = ["Uflow.Props.C20", "Uflow.Props.C20Hc", "uflow_driver"]
PROPS_FILES = ["C20", "C20Hc"]
TRUSTED_BASE = [
    "Lean 4.33 kernel; axioms per theorem under coverage.axioms (propext, Quot.sound)",
    "tools/extract_consts.py (MAX_FRAGMENT_SIZE, PACKET_ID_SPAN, CHANNEL_COUNT)",
    "hand-written model Uflow/Model/PSend.lean (ring buffer abstracted to a FIFO of the ids base..next), tied to the code by the hc correspondence streams: every probe line (total_size, queued bytes, window bytes, alloc) is compared after every tick",
    "cfg(uflow_verif) probe HalfConnection::verif_probe (read-only)",
]
ASSUMPTIONS = ["the theorem speaks about runs the sender survives; forged acknowledgement ids >= 2^20 (which make acknowledge() panic) are C03's subject"]
RULE = ("two real HalfConnections joined by a simulated network (loss/dup/reorder/delay/flips), random send histories over 4 modes and sizes around the "
        "1448-byte fragment boundaries, windows 4..4096, small allocation limits, bursts beyond window and credit, TimeSensitive packets dropped by flush id; "
        "a probe after every 1-5 ticks; then a loss-free drain to quiescence. Oracle clause released_on_report: after an endpoint has handled an acknowledgement frame of its peer reporting packet window base P, its send window base is at or past P. Non-trivial: at least one frame emitted and one packet delivered; distinct by "
        "(frame window, packet window, frame kinds, fates seen, volume buckets, wrap-around flags).")

def streams(rng, tier, ctx):
    n = 24 if tier == "quick" else 400
    it = Interactive("hc")
    cases = []; meta = {}
    try:
        for i in range(n):
            r = rng.fork()
            it.op("=== gen%d" % i)
            cfg = pick_cfg(r)
            if i % 3 == 0:
                cfg["pw"] = r.pick([4, 16]); cfg["allocA"] = cfg["allocB"] = r.pick([3 * 1448, 8000, 20000])
            if i % 4 == 1:
                # allocation stalls with a TimeSensitive packet at the head of the send queue: the peer's limit is a few fragments,
                # Reliable packets fill it exactly, TimeSensitive and other packets queue up behind, acknowledgements come late or are lost
                k = r.pick([1, 2, 3]); cfg["allocA"] = cfg["allocB"] = k * F - r.pick([0, 0, 1])
                cfg["bwA"] = cfg["bwB"] = r.pick([200_000, 2_000_000]); cfg["pw"] = r.pick([16, 64])
                sim = Sim(r, cfg, inter=it)
                lat = r.pick([1_000_000, 20_000_000])
                netA = Net(latency=lat, loss=r.pick([0, 100])); netB = Net(latency=lat, loss=r.pick([0, 200, 500]))
                def tr(sim, ep):
                    if ep == "A" and sim.tick < 60 and sim.tick % r.pick([2, 3, 5]) == 0:
                        for _ in range(k):
                            sim.send("A", r.below(3), r.pick([3, 3, 2]), r.pick([F, F - 1, 700]))
                        sim.send("A", r.below(3), 0, r.pick([10, 100, 700]))
                        if r.chance(1, 2):
                            sim.send("A", r.below(3), r.pick([0, 1, 3]), r.pick([10, 100]))
                sim.run(r.range(50, 90), r.pick([1_000_000, 5_000_000, 16_000_000]), netA, netB, tr, probe_every=1)
                sim.meta = {"cfg": cfg}
            else:
                sim = H.lossy_scenario(r, it, tier, cfg=cfg, max_len=min(6000, cfg["allocA"]))
            H.finish(sim, drain=True, max_ticks=500)
            if sim.drained and not sim.dead:
                # packets sent once and lost (Unreliable / TimeSensitive) stay in the send window - unacknowledged, hence counted -
                # until a sync round lets the receiver's window pass them: give it time, then look again
                lat = getattr(sim, "latency", 0)
                sim.run(60, 100_000_000, Net(latency=lat), Net(latency=lat))
                sim.drain(max_ticks=400, dt_ns=20_000_000)
                for ep in sim.eps:
                    sim.probe(ep); sim.get(ep)
            cid = "s%d" % i
            cases.append((cid, sim.ops)); meta[cid] = sim
    finally:
        it.close()
    return [{"name": "lossy", "mode": "hc", "cases": cases, "meta": meta, "case_timeout": 120}]

def signature(ops, outs):
    return None

def oracle(stream, cid, ops, outs):
    fails = H.trap_failures(ops, outs)
    sim = stream["meta"][cid]
    stream.setdefault("_sigs", set())
    delivered, frames, probes, gets = H.replay_outputs(ops, outs)
    for ep, ps in probes.items():
        for p in ps:
            total = int(p["ps"][4]); qb, wb, ab = (int(x) for x in p["pb"]); alloc = int(p["ps"][2])
            if total != qb + wb:
                fails.append({"oracle": "sbs_exact", "detail": "%s t=%d: total_size=%d but queued=%d + window=%d" % (ep, p["_time"], total, qb, wb),
                              "signature": {"oracle": "sbs_exact"}})
                break
            if alloc != ab:
                fails.append({"oracle": "alloc_exact", "detail": "%s t=%d: alloc=%d but window alloc sum=%d" % (ep, p["_time"], alloc, ab),
                              "signature": {"oracle": "alloc_exact"}})
                break
    # "acknowledged" is what the receiver reports: once an endpoint has handled an acknowledgement frame of its (honest) peer
    # carrying the packet window base P, its own send window base is at or past P - the packets behind P are released and their
    # bytes leave send_buffer_size() - whether or not the same frame also moved the frame window (round-7 change C20-g)
    import gen_hc
    emitted = {"A": [], "B": []}; reported = {"A": [], "B": []}
    for op, o in zip(ops, outs):
        w = op.split(" ")
        if len(w) >= 2 and w[1] == "flush" and o and o[0].isdigit():
            emitted[w[0]].extend(gen_hc.parse_frames(o))
        elif w[0] == "fwd" and len(w) == 4 and o == "ok":
            src, idx, dst = w[1], int(w[2]), w[3]
            f = emitted[src][idx] if idx < len(emitted[src]) else None
            if f and f["kind"] == "A":
                reported[dst].append(f["pbase"])
        elif len(w) >= 2 and w[1] == "probe" and o.startswith("fa="):
            pr = gen_hc.parse_probe(o); base = int(pr["ps"][0])
            bad = [P for P in reported[w[0]] if ((base - P) % (1 << 20)) >= (1 << 19)]
            reported[w[0]] = []
            if bad:
                fails.append({"oracle": "released_on_report", "detail": "%s: handled an acknowledgement frame reporting packet window base %d, but its send window base is still %d (next %s): send_buffer_size keeps counting %s bytes in the window" %
                              (w[0], bad[0], base, pr["ps"][1], pr["pb"][1]), "signature": {"oracle": "released_on_report"}})
                break
    # "zero once everything has been acknowledged": whenever the send queue is empty and the send window is empty (every packet
    # that was sent has been acknowledged or passed by the receiver's window) the counter is 0; and the public
    # send_buffer_size() is the counter the probe reports
    for ep in ("A", "B"):
        for p in probes.get(ep, []):
            if p["ps"][0] == p["ps"][1] and int(p["pb"][0]) == 0 and int(p["ps"][4]) != 0:
                fails.append({"oracle": "sbs_zero", "detail": "%s t=%d: send queue and send window are empty but total_size=%s" % (ep, p["_time"], p["ps"][4]),
                              "signature": {"oracle": "sbs_zero"}})
                break
        if probes.get(ep) and gets.get(ep) and getattr(sim, "drained", None):
            p = probes[ep][-1]; g = gets[ep][-1]
            if int(g["sbs"]) != int(p["ps"][4]):
                fails.append({"oracle": "sbs_public", "detail": "%s: send_buffer_size() = %s but the counter is %s" % (ep, g["sbs"], p["ps"][4]),
                              "signature": {"oracle": "sbs_public"}})
    return fails

def signature(ops, outs):
    # distinctness is computed from the scenario parameters embedded in the first ops
    nf = sum(1 for o in outs if ":D," in o); nd = sum(1 for op, o in zip(ops, outs) if op.endswith(" recv") and o and o[0] not in "0tdh")
    if nf == 0 or nd == 0:
        return None
    return (ops[1][:60], min(nf // 10, 8), min(nd // 5, 8), any(":S," in o for o in outs))
