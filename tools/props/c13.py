"""C13 — wire rate never exceeds the negotiated ceiling."""
import struct
import vlib
from checkflow import Interactive
from props import hc_common as H
from gen_hc import Sim, Net, pick_cfg, random_traffic, pick_len

PROP = "C13"
LAKE_TARGETS = ["Uflow.Props.C13", "Uflow.Props.C13Bound", "Uflow.Props.C13Ep", "Uflow.Props.C13Cli", "uflow_driver"]
PROPS_FILES = ["C13", "C13Bound", "C13Ep", "C13Cli"]
TRUSTED_BASE = [
    "Lean 4.33 kernel; axioms per theorem under coverage.axioms",
    "tools/extract_consts.py",
    "hand-written model HalfConn (fill_flush_alloc, emitters) and Rate, generic over FloatOps; the Float instance is compared bit-for-bit with the code (flush_alloc, send rate, rtt bits in every probe)",
]
ASSUMPTIONS = ["IEEE rounding inside rate*dt is modelled (FloatOps.fillBytes), not verified; the interval bound is evaluated on the implementation's emitted bytes and virtual clock"]
RULE = ("two-endpoint scenarios with ceilings from 1472 B/s to 20 MB/s on either side, large backlogs, step cadences from 0.1 ms to seconds, repeated flushes per step, "
        "long pauses, loss and feedback patterns; the oracle slides over all pairs of emission instants and checks bytes(t1,t2] <= ceiling*(t2-t1+rtt) + 1472. "
        "Plus real Client/Server pairs whose four configured rates all differ (the ceiling of a direction is min(own max_send_rate, the max_receive_rate in the "
        "peer's handshake frame), one side flooding, repeated flushes. Round-7 family: a receive-only endpoint with a ceiling of about one frame per second owing "
        "acknowledgements to a fast sender (what it transmits is acknowledgement frames only). Non-trivial: the endpoint emitted >= 5 frames. Distinct by (ceiling, cadence, backlog bucket, loss).")

def bits_to_float(b):
    return struct.unpack("<d", struct.pack("<Q", int(b)))[0]

def rate_scenario(r, it, tier, idx):
    cfg = pick_cfg(r)
    bw = r.weighted([(1472, 3), (2000, 2), (5000, 2), (20000, 2), (200000, 2), (2_000_000, 1), (20_000_000, 1)])
    cfg["bwA"] = bw; cfg["rbwB"] = r.pick([bw, bw * 2, max(1472, bw // 2)])
    cfg["bwB"] = r.pick([bw, 2_000_000]); cfg["rbwA"] = cfg["bwB"]
    cfg["allocA"] = cfg["allocB"] = 1_000_000
    sim = Sim(r, cfg, inter=it)
    sim.ceiling = {"A": min(cfg["bwA"], cfg["rbwB"]), "B": min(cfg["bwB"], cfg["rbwA"])}
    lat = r.pick([0, 0, 1_000_000, 20_000_000, 100_000_000])
    netA = Net(loss=r.pick([0, 0, 50, 200]), latency=lat, jitter=r.pick([0, 1_000_000]))
    netB = Net(loss=r.pick([0, 0, 100]), latency=lat)
    dt = r.pick([100_000, 250_000, 340_000, 1_000_000, 5_000_000, 16_000_000, 100_000_000, 1_000_000_000])
    ticks = r.range(60, 300) if tier == "quick" else r.range(100, 1500)
    backlog = r.pick([2, 10, 40])
    def traffic(sim, ep):
        if ep == "A" and sim.tick <= 3:
            for _ in range(backlog):
                sim.send("A", r.below(4), r.pick([1, 2, 3]), pick_len(r, 4000))
        elif ep == "A" and r.chance(1, 20):
            sim.send("A", r.below(4), r.pick([0, 1, 2, 3]), pick_len(r, 4000))
        elif ep == "B" and r.chance(1, 30):
            sim.send("B", r.below(4), r.pick([1, 3]), pick_len(r, 2000))
    extra = r.pick([0, 0, 1, 3])
    def dtf(sim):
        if r.chance(1, 60):
            return r.pick([2_000_000_000, 10_000_000_000])      # long pause
        return dt
    sim.run(ticks, dtf, netA, netB, traffic, probe_every=1, extra_flush=extra)
    sim.meta = {"dt": dt, "bw": bw, "extra": extra, "lat": lat}
    return sim

def blackout_scenario(r, it, tier, idx):
    """loss to enter the throughput-equation phase, then silence from the peer (no-feedback expiries)."""
    cfg = pick_cfg(r)
    bw = r.pick([5000, 10000, 20000, 50000])
    cfg["bwA"] = bw; cfg["rbwB"] = bw; cfg["bwB"] = 2_000_000; cfg["rbwA"] = 2_000_000
    cfg["allocA"] = cfg["allocB"] = 1_000_000
    sim = Sim(r, cfg, inter=it)
    sim.ceiling = {"A": bw, "B": 2_000_000}
    lat = r.pick([1_000_000, 5_000_000, 20_000_000])
    dt = r.pick([1_000_000, 5_000_000, 16_000_000])
    def traffic(sim, ep):
        if ep == "A" and (sim.tick <= 2 or r.chance(1, 10)):
            for _ in range(8):
                sim.send("A", r.below(4), r.pick([2, 3]), pick_len(r, 3000))
    sim.meta = {"dt": dt, "bw": bw, "extra": 0, "lat": lat}
    sim.run(r.range(150, 400), dt, Net(loss=r.pick([100, 200, 300]), latency=lat), Net(latency=lat), traffic, probe_every=1)
    # blackout of the reverse path: acks stop, the no-feedback timer runs
    sim.run(r.range(20, 60), r.pick([100_000_000, 500_000_000, 2_000_000_000]), Net(latency=lat), Net(loss=1000), traffic, probe_every=1)
    sim.run(r.range(20, 100), dt, Net(latency=lat), Net(latency=lat), traffic, probe_every=1)
    return sim

def bunch_scenario(r, it, tier, idx):
    """equation phase, long loss-free stretch (X_Bps grows far above the ceiling), two acks released 1-3 ms apart
    (a huge receive-rate sample), then silence: exercises the no-feedback rule with X_recv and X_Bps above the ceiling."""
    cfg = pick_cfg(r)
    bw = r.pick([20000, 20000, 10000, 5000]); lat = r.pick([10_000_000, 10_000_000, 1_000_000, 0]); gap = r.pick([1, 0, 2])
    cfg["bwA"] = bw; cfg["rbwB"] = bw; cfg["bwB"] = 2_000_000; cfg["rbwA"] = 2_000_000
    cfg["allocA"] = cfg["allocB"] = 1_000_000
    sim = Sim(r, cfg, inter=it)
    sim.ceiling = {"A": bw, "B": 2_000_000}
    sim.meta = {"dt": 1_000_000, "bw": bw, "extra": 0, "lat": lat}
    def traffic(sim, ep):
        if ep == "A" and (sim.tick <= 2 or r.chance(1, 10)):
            for _ in range(8):
                sim.send("A", r.below(4), 3, 1448)
    for k in range(400):
        sim.run(5, 1_000_000, Net(loss=150, latency=lat), Net(latency=lat), traffic, probe_every=5)
        if sim.dead or (sim.probes["A"] and sim.probes["A"][-1]["rate"][2] == "2"):
            break
    for k in range(250 if tier == "quick" else 1500):
        sim.run(10, 4_000_000, Net(latency=lat), Net(latency=lat), traffic, probe_every=10)
        if sim.dead or int(sim.probes["A"][-1]["rate"][3]) > 3 * bw:
            break
    nB = len(sim.frames["B"])
    for k in range(600):
        sim.run(1, 1_000_000, Net(latency=lat), Net(loss=1000), traffic, probe_every=1)
        if sim.dead or len([f for f in sim.frames["B"][nB:] if f["kind"] == "A"]) >= 2:
            break
    held = [f for f in sim.frames["B"][nB:] if f["kind"] == "A"]
    if len(held) >= 2 and not sim.dead:
        sim.tick += 1; sim.set_time(sim.time + 1_000_000); sim.op("fwd B %d A" % held[0]["idx"]); sim.op("A step"); sim.probe("A")
        for _ in range(gap):
            sim.tick += 1; sim.set_time(sim.time + 1_000_000)
        sim.op("fwd B %d A" % held[1]["idx"]); sim.op("A step"); sim.probe("A")
        sim.run(40, 200_000_000, Net(latency=lat), Net(loss=1000), None, probe_every=1)
    return sim

def microstep_scenario(r, it, tier, idx):
    """one frame per second ceiling, the sender stepped every 0.25-0.5 ms for several seconds while acks flow:
    the per-step rounding of rate*dt to whole bytes is what is exercised."""
    cfg = pick_cfg(r)
    bw = r.pick([1472, 1472, 2000])
    cfg["bwA"] = bw; cfg["rbwB"] = bw; cfg["bwB"] = 2_000_000; cfg["rbwA"] = 2_000_000
    cfg["allocA"] = cfg["allocB"] = 1_000_000
    sim = Sim(r, cfg, inter=it)
    sim.ceiling = {"A": bw, "B": 2_000_000}
    dt = r.pick([340_000, 340_000, 300_000, 450_000, 250_000])
    sim.meta = {"dt": dt, "bw": bw, "extra": 0, "lat": 0}
    for _ in range(40):
        sim.send("A", 0, 3, 1448)
    net = Net()
    n = 12000 if tier == "quick" else 60000
    for k in range(n):
        if sim.dead:
            break
        sim.tick += 1
        sim.set_time(sim.time + dt)
        fr = sim.flush("A", net)
        if fr or k % 500 == 0:
            sim.endpoint_tick("B", net)
            sim.deliver_due("A")
        sim.op("A step")
        if k % 400 == 0:
            sim.probe("A")
    return sim

def floor_scenario(r, it, tier, idx):
    """normal start, a long silence (slow-start halvings down to the s/64 floor), then feedback reporting loss
    (equation phase entered at half the floor rate), then silence again (no-feedback rule in the equation phase)."""
    cfg = pick_cfg(r)
    bw = r.pick([20000, 200000, 2_000_000])
    cfg["bwA"] = bw; cfg["rbwB"] = bw; cfg["bwB"] = 2_000_000; cfg["rbwA"] = 2_000_000
    cfg["allocA"] = cfg["allocB"] = 1_000_000; cfg["fw"] = 4096; cfg["pw"] = 4096
    sim = Sim(r, cfg, inter=it)
    sim.ceiling = {"A": bw, "B": 2_000_000}
    lat = r.pick([1_000_000, 10_000_000])
    sim.meta = {"dt": 5_000_000, "bw": bw, "extra": 0, "lat": lat}
    def traffic(sim, ep):
        if ep == "A" and (sim.tick <= 2 or r.chance(1, 20)):
            for _ in range(6):
                sim.send("A", r.below(4), 3, 1448)
    ok = Net(latency=lat); dead = Net(loss=1000)
    sim.run(r.range(20, 60), 5_000_000, ok, ok, traffic, probe_every=1)
    # silence: the reverse path is closed until the rate has been halved to the floor
    for k in range(900):
        sim.run(1, 1_000_000_000, ok, dead, traffic, probe_every=1)
        if sim.dead or (sim.probes["A"] and int(sim.probes["A"][-1]["rate"][0]) <= 23):
            break
    # feedback again, with losses on the forward path (every other data frame)
    for k in range(400):
        sim.run(1, 250_000_000, Net(latency=lat, loss=500), ok, traffic, probe_every=1)
        if sim.dead or sim.probes["A"][-1]["rate"][2] == "2":
            break
    sim.run(r.range(300, 600), 1_000_000_000, ok, dead, traffic, probe_every=1)
    return sim

def fine_cadence_scenario(r, it, tier, idx):
    """ceiling of one frame per second, sub-millisecond stepping, acks flowing."""
    cfg = pick_cfg(r)
    bw = r.pick([1472, 1472, 2000, 3000])
    cfg["bwA"] = bw; cfg["rbwB"] = bw; cfg["bwB"] = 2_000_000; cfg["rbwA"] = 2_000_000
    cfg["allocA"] = cfg["allocB"] = 1_000_000
    sim = Sim(r, cfg, inter=it)
    sim.ceiling = {"A": bw, "B": 2_000_000}
    dt = r.pick([100_000, 250_000, 340_000, 400_000])
    def traffic(sim, ep):
        if ep == "A" and sim.tick <= 2:
            for _ in range(30):
                sim.send("A", 0, 3, 1448)
    sim.meta = {"dt": dt, "bw": bw, "extra": 0, "lat": 0}
    sim.run(1500 if tier == "quick" else 20000, dt, Net(), Net(), traffic, probe_every=50)
    return sim

def ack_debt_scenario(r, it, tier, idx):
    """a receive-only endpoint B with a ceiling of about one frame per second facing a fast sender: every received data frame
    owes an acknowledgement group, B flushes after every step (and a few more times), so what B transmits is acknowledgement
    frames only - they draw on the same credit and have to wait for it like data frames (round-7 change C13-g)."""
    cfg = pick_cfg(r)
    bwB = r.pick([1472, 1472, 2000, 3000])
    cfg["bwA"] = 2_000_000; cfg["rbwB"] = 2_000_000; cfg["bwB"] = bwB; cfg["rbwA"] = r.pick([bwB, 2_000_000])
    cfg["allocA"] = cfg["allocB"] = 1_000_000
    sim = Sim(r, cfg, inter=it)
    sim.ceiling = {"A": 2_000_000, "B": bwB}
    dt = r.pick([500_000, 1_000_000, 2_000_000, 5_000_000])
    per_tick = r.pick([1, 2, 4])
    def traffic(sim, ep):
        if ep == "A":
            for _ in range(per_tick):
                sim.send("A", r.below(4), r.pick([1, 1, 2, 3]), r.pick([10, 100, 400]))
    extra = r.pick([0, 1, 3])
    sim.meta = {"dt": dt, "bw": bwB, "extra": extra, "lat": 0}
    sim.run(400 if tier == "quick" else 3000, dt, Net(), Net(loss=r.pick([0, 0, 300])), traffic, probe_every=10, extra_flush=extra)
    return sim

def streams(rng, tier, ctx, with_ep=True):
    n = 28 if tier == "quick" else 350
    it = Interactive("hc")
    cases = []; meta = {}
    try:
        for i in range(n):
            r = rng.fork()
            it.op("=== gen%d" % i)
            fam = [rate_scenario, floor_scenario, blackout_scenario, fine_cadence_scenario, microstep_scenario, bunch_scenario, ack_debt_scenario][i % 7]
            sim = fam(r, it, tier, i)
            cid = "r%d" % i
            cases.append((cid, sim.ops)); meta[cid] = sim
    finally:
        it.close()
    out = [{"name": "rate", "mode": "hc", "cases": cases, "meta": meta, "case_timeout": 120}]
    if not with_ep:
        return out
    # real endpoints: the ceiling of a direction is min(sender's max_send_rate, the max_receive_rate the PEER put into its
    # handshake frame); all four configured rates differ, one side floods
    from props import ep_common as E
    ne = 8 if tier == "quick" else 100
    it = Interactive("ep")
    ecases = []; emeta = {}
    try:
        for i in range(ne):
            r = rng.fork()
            it.op("=== gene%d" % i)
            sim = E.EpSim(r, inter=it)
            vals = [30_000, 45_000, 70_000, 110_000, 180_000, 300_000, 500_000]
            picked = []
            while len(picked) < 4:
                v = r.pick(vals)
                if v not in picked:
                    picked.append(v)
            flooder = "c" if i % 2 == 0 else "s"
            if i % 4 < 2:
                picked.sort()                     # the flooded side's max_receive_rate is the smallest of the four
                peer_recv = picked[0]; rest = picked[1:]
                k = r.below(3); own_send = rest.pop(k)
                a, b = rest
            else:
                peer_recv, own_send, a, b = picked
            if flooder == "c":
                ccfg = dict(E.DEFAULT_EP, send=own_send, recv=a); scfg = dict(E.DEFAULT_EP, send=b, recv=peer_recv)
            else:
                scfg = dict(E.DEFAULT_EP, send=own_send, recv=a); ccfg = dict(E.DEFAULT_EP, send=b, recv=peer_recv)
            sim.srv(8, 8, 1, scfg)
            lat = r.pick([0, 1_000_000, 5_000_000])
            nets = {"c2s": E.Net(latency=lat, loss=r.pick([0, 0, 30])), "s2c": E.Net(latency=lat, loss=r.pick([0, 0, 30]))}
            sim.cli(0, ccfg, nets)
            sim.run(10, 5_000_000, nets)
            for _ in range(r.range(30, 60)):
                sim.send(flooder, 0, r.below(3), r.pick([3, 3, 1]), r.pick([10_000, 5_000, 1_448]))
            dt = r.pick([1_000_000, 2_000_000, 5_000_000, 10_000_000])
            extra = r.pick([0, 0, 2])
            def actions(sim, extra=extra):
                sim.op("cget 0"); sim.op("sget 0")
                for _ in range(extra):
                    sim.absorb(sim.op("cflush 0"), nets); sim.absorb(sim.op("sflush"), nets)
            sim.run(r.range(500, 900) if tier == "quick" else r.range(800, 3000), dt, nets, actions)
            sim.ceiling = {"c2s": min(ccfg["send"], scfg["recv"]), "s2c": min(scfg["send"], ccfg["recv"])}
            sim.meta = {"dt": dt, "flooder": flooder}
            cid = "e%d" % i
            ecases.append((cid, sim.ops)); emeta[cid] = sim
        # known finding F23 (theorem C13_ep_client_hsack_witness): an Active client answers every SYN-ACK carrying its nonce with a
        # 9-byte handshake ACK that does not go through the half connection's credit: a replayed SYN-ACK, 200 copies in one step
        from checkflow import SplitMix
        it.op("=== kfF23")
        sim = E.EpSim(SplitMix(23), inter=it)
        scfg = dict(E.DEFAULT_EP); ccfg = dict(E.DEFAULT_EP, send=1472)
        sim.srv(8, 8, 1, scfg)
        nets = {"c2s": E.Net(), "s2c": E.Net()}
        sim.cli(0, ccfg, nets)
        sim.run(6, 5_000_000, nets)
        sa = [d["idx"] for d in sim.log.get((0, "s2c"), []) if d["kind"] == "synack"]
        if sa:
            sim.tick += 1; sim.set_time(sim.time + 5_000_000)
            for _ in range(200):
                sim.op("fwd s2c 0 %d" % sa[0])
            sim.cstep(0, nets); sim.sstep(nets)
        sim.run(5, 5_000_000, nets)
        sim.ceiling = {"c2s": min(ccfg["send"], scfg["recv"]), "s2c": min(scfg["send"], ccfg["recv"])}
        sim.meta = {"dt": 5_000_000, "flooder": "-"}
        ecases.append(("kfF23", sim.ops)); emeta["kfF23"] = sim
    finally:
        it.close()
    out.append({"name": "negotiated_ceiling", "mode": "ep", "cases": ecases, "meta": emeta, "case_timeout": 120})
    return out

def signature(ops, outs):
    if any(op.startswith("srv ") for op in ops[:4]):
        nf = sum(o.count(":D,") for op, o in zip(ops, outs) if op.startswith(("sstep", "cstep")))
        return None if nf < 5 else (ops[1][:70], ops[2][:70] if len(ops) > 2 else "", min(nf // 50, 9))
    nf = sum(o.count(":D,") + o.count(":A,") + o.count(":S,") for op, o in zip(ops, outs) if op.endswith(" flush"))
    if nf < 5:
        return None
    return (ops[1][:70], min(nf // 10, 9))

def interval_check(ep, frames, probes, ceiling, rtts=None):
    """bytes(t1,t2] <= ceiling*(t2-t1+rtt) + 1472 for all pairs of emission instants t1 < t2, where rtt is the
    largest RTT estimate reported up to t2 (an over-approximation of the current one, which only weakens the
    demand). Linear scan: the condition for (i, j) is  P[j] - c*t_j - c*R_j - 1472 <= P[i] - c*t_i."""
    ev = {}
    for f in frames:
        ev[f["time"]] = ev.get(f["time"], 0) + f["len"]
    times = sorted(ev)
    if rtts is None:
        rtts = sorted((p["_time"], 0.0 if p["rate"][6] == "-" else bits_to_float(p["rate"][6])) for p in probes)
    worst = None
    best = None; best_i = None      # min over i of P[i] - c*t_i  (P[i] = bytes emitted up to and including t_i)
    P = 0; k = 0; rmax = 0.0
    for j, t in enumerate(times):
        P += ev[t]
        while k < len(rtts) and rtts[k][0] <= t:
            rmax = max(rmax, rtts[k][1]); k += 1
        tj = t / 1e9
        if best is not None:
            lhs = P - ceiling * tj - ceiling * rmax - 1472
            if lhs > best + 1e-6:
                ex = lhs - best
                if worst is None or ex > worst[0]:
                    ti = times[best_i]
                    b = P - sum(ev[x] for x in times[:best_i + 1])
                    worst = (ex, ti, t, b, ceiling * ((t - ti) / 1e9 + rmax) + 1472)
        cur = P - ceiling * tj
        if best is None or cur < best:
            best = cur; best_i = j
    return worst

def ep_oracle(stream, cid, ops, outs):
    from props import ep_common as E
    fails = E.trap_failures(ops, outs)
    sim = stream["meta"][cid]
    sev, cev, log, delivered, calls = E.replay(ops, outs)
    rtts = {"c2s": [], "s2c": []}
    t = 0
    for op, o in zip(ops, outs):
        w = op.split(" ")
        if w[0] == "t":
            t = int(w[1])
        elif w[0] in ("cget", "sget") and "rtt=" in o:
            v = o.split("rtt=")[1].split(" ")[0]
            rtts["c2s" if w[0] == "cget" else "s2c"].append((t, 0.0 if v == "-" else bits_to_float(v)))
    for dr in ("c2s", "s2c"):
        fs = [d for d in log.get((0, dr), []) if d.get("kind") in ("D", "A", "S")]
        w = interval_check(dr, fs, None, sim.ceiling[dr], rtts=sorted(rtts[dr])) if len(fs) >= 2 else None
        who = "client" if dr == "c2s" else "server"
        if w:
            fails.append({"oracle": "rate_ceiling", "detail": "%s (negotiated ceiling min(own max_send_rate, peer max_receive_rate) = %d B/s, step %s ns): %d bytes in (%.6f s, %.6f s] > bound %.1f" %
                          (who, sim.ceiling[dr], sim.meta["dt"], w[3], w[1] / 1e9, w[2] / 1e9, w[4]),
                          "signature": {"oracle": "rate_ceiling", "cause": "negotiated", "side": who}})
        elif dr == "c2s":
            # everything the client transmits for the connection once it is established, handshake ACKs included
            tcon = next((t for (t, tag, _) in cev.get(0, []) if tag == "C"), None)
            if tcon is not None:
                fs2 = fs + [d for d in log.get((0, dr), []) if d.get("kind") == "hsack" and d["time"] > tcon]
                fs2.append({"time": tcon, "len": 0})        # the instant the connection was established opens the first interval
                fs2.sort(key=lambda d: d["time"])
                w2 = interval_check(dr, fs2, None, sim.ceiling[dr], rtts=sorted(rtts[dr])) if len(fs2) > len(fs) + 1 else None
                if w2:
                    fails.append({"oracle": "rate_ceiling", "detail": "client (ceiling %d B/s): %d bytes in (%.6f s, %.6f s] > bound %.1f once the handshake ACKs it sends while active (%d of them, 9 bytes each, answers to SYN-ACKs carrying its nonce) are counted" %
                                  (sim.ceiling[dr], w2[3], w2[1] / 1e9, w2[2] / 1e9, w2[4], len(fs2) - len(fs) - 1),
                                  "signature": {"oracle": "rate_ceiling", "cause": "handshake_acks_unmetered", "side": "client"}})
    return fails

def oracle(stream, cid, ops, outs):
    if stream["mode"] == "ep":
        return ep_oracle(stream, cid, ops, outs)
    fails = H.trap_failures(ops, outs)
    sim = stream["meta"][cid]
    delivered, frames, probes, gets = H.replay_outputs(ops, outs)
    for ep in ("A", "B"):
        fs = frames.get(ep, [])
        if len(fs) < 2:
            continue
        w = interval_check(ep, fs, probes.get(ep, []), sim.ceiling[ep])
        if w:
            fails.append({"oracle": "rate_ceiling", "detail": "%s (ceiling %d B/s, step %s ns): %d bytes in (%.6f s, %.6f s] > bound %.1f" %
                          (ep, sim.ceiling[ep], sim.meta["dt"], w[3], w[1] / 1e9, w[2] / 1e9, w[4]),
                          "signature": {"oracle": "rate_ceiling", "cause": "sendrate>ceiling" if any(int(p["rate"][0]) > sim.ceiling[ep] for p in probes.get(ep, [])) else "credit"}})
    return fails
