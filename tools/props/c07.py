"""C07 — connections exist only after a nonce-validated 3-way handshake."""
import vlib
from checkflow import Interactive
from props import ep_common as E
from props import c08

PROP = "C07"
LAKE_TARGETS = ["Uflow.Props.C07", "Uflow.Props.C07Client", "Uflow.Props.C07Refuse", "Uflow.Props.C07SrvInit", "Uflow.Props.C07SrvInit2", "uflow_driver"]
PROPS_FILES = ["C07", "C07Client", "C07Refuse", "C07SrvInit", "C07SrvInit2"]
TRUSTED_BASE = c08.TRUSTED_BASE
ASSUMPTIONS = ["nonces are what the wire shows: the harness reads them off the captured SYN / SYN-ACK frames"]
RULE = ("handshakes under loss/dup/reorder of SYN, SYN-ACK, ACK and error frames, forged handshake frames (random, stale, replayed or off-by-one nonces; wrong version; "
        "incompatible sizes) injected at every point incl. established connections, pairs of endpoint configurations compatible or not, up to 4 simultaneous clients. "
        "Oracle: server Connect only after a delivered ACK carrying the nonce of a SYN-ACK the server sent to that address (itself answering a delivered SYN); client "
        "Connect only after a delivered SYN-ACK echoing its SYN nonce; first data frames start at the nonces (frame id = nonce, packet id = nonce mod 2^20); refusals carry "
        "the matching error code and echo the nonce; event grammar as C08. Non-trivial: a Connect or a refusal happened. Forged / stale handshake error frames with the client's own nonce after Connect; oracle established_not_reset. Round-7 oracle accepted_not_refused: no handshake error frame to an address within 2 s of a SYN-ACK to it (duplicated SYNs at full occupancy).")

U32 = 0xFFFFFFFF

def streams(rng, tier, ctx):
    n = 30 if tier == "quick" else 500
    it = Interactive("ep"); codec = Interactive("codec")
    cases = []; meta = {}
    try:
        for i in range(n):
            r = rng.fork()
            it.op("=== gen%d" % i)
            scfg = None
            if i % 4 == 1:
                # a server whose limits all differ from one another (and from the clients'), compatible with the default client
                scfg = dict(E.DEFAULT_EP, maxpkt=r.pick([10_000, 100_000, 500_000]), alloc=r.pick([1_000_000, 1_500_000, 3_000_000]),
                            recv=r.pick([300_000, 1_234_567]), send=r.pick([400_000, 2_345_678]))
            sim = E.general_scenario(r, it, tier, forge=True, codec=codec, variants=(i % 2 == 0), disconnects=(i % 3 == 0), srv_cfg=scfg,
                                     limits=(8, r.pick([8, 2])), dt_choices=(5_000_000, 50_000_000, 500_000_000), hs_errors=(1 if i % 4 < 2 else 0))
            cid = "h%d" % i
            cases.append((cid, sim.ops)); meta[cid] = sim
    finally:
        it.close(); codec.close()
    return [{"name": "handshake", "mode": "ep", "cases": cases, "meta": meta, "case_timeout": 60}]

def signature(ops, outs):
    evs = "".join(sorted(set(e[0] + (e.split(":")[1][:2] if ":" in e and e[0] == "E" else "") for op, o in zip(ops, outs)
                             if op.startswith(("sstep", "cstep")) and o.startswith("ev") for e in o.split("|")[0].split()[1:])))
    if "C" not in evs and "E" not in evs:
        return None
    return (evs, sum(1 for op in ops if op.startswith("raw ")) > 0, min(len(ops) // 200, 8))

def oracle(stream, cid, ops, outs):
    fails = E.trap_failures(ops, outs)
    sim = stream["meta"][cid]
    sev, cev, log, delivered, calls = E.replay(ops, outs)
    # --- server side
    for (t, tag, p, _) in sev:
        if tag != "C":
            continue
        # SYN-ACKs the server had sent to p before t, ACKs delivered from p up to t, SYNs delivered from p
        synacks = [(int(d["f"][1]), int(d["f"][2])) for d in log.get((p, "s2c"), []) if d["kind"] == "synack" and d["time"] <= t]
        acks = [int(d["f"][1]) for (tt, dr, q, d) in delivered if dr == "c2s" and q == p and tt <= t and d.get("kind") == "hsack"]
        syns = [int(d["f"][2]) for (tt, dr, q, d) in delivered if dr == "c2s" and q == p and tt <= t and d.get("kind") == "syn"]
        ok = any((na in syns) and (n in acks) for (na, n) in synacks)
        if not ok:
            fails.append({"oracle": "server_connect_sound", "detail": "server Connect for peer %d at %d ms without a delivered ACK carrying a nonce the server issued (issued %s, acks %s)" %
                          (p, t // 10**6, [n for (_, n) in synacks][-3:], acks[-3:]), "signature": {"oracle": "server_connect_sound"}})
    # --- completeness on the server side: a delivered ACK carrying the nonce of the LATEST SYN-ACK the server sent to that
    #     address, sent at most 2.5 s earlier (so the pending entry is still alive: it resends every 2 s for 22 s), completes the
    #     handshake - forged / stale SYNs in between must not have reset or replaced the pending entry
    t_now = 0; pend_ack = None
    connects = {}
    for (t, tag, p, _) in sev:
        if tag == "C":
            connects.setdefault(p, []).append(t)
    srv_steps = []
    tcur = 0
    for op in ops:
        w = op.split(" ")
        if w[0] == "t": tcur = int(w[1])
        elif w[0] == "sstep": srv_steps.append(tcur)
    dropped = [(t, q) for (t, w, q) in calls if w == "sdrop"]
    for (t, dr, p, d) in delivered:
        if dr != "c2s" or d.get("kind") != "hsack" or d.get("forged"):
            continue
        n = int(d["f"][1])
        sa = [x for x in log.get((p, "s2c"), []) if x["kind"] == "synack" and x["time"] <= t]
        if not sa:
            continue
        last_sa = sa[-1]
        if int(last_sa["f"][2]) != n or t - last_sa["time"] > 2_500 * 10**6:
            continue
        if any(q == p and t - 30_000 * 10**6 <= td <= t for (td, q) in dropped):
            continue
        step_t = next((st for st in srv_steps if st >= t), None)
        if step_t is None:
            continue
        if not any(tc <= step_t for tc in connects.get(p, [])):
            fails.append({"oracle": "server_connect_complete", "detail": "peer %d: the ACK delivered at %d ms carries the nonce %d of the server's latest SYN-ACK (sent at %d ms) but the server reported no Connect" %
                          (p, t // 10**6, n, last_sa["time"] // 10**6), "signature": {"oracle": "server_connect_complete"}})
            break
    # --- a handshake frame from an address the server has just accepted never earns a refusal: a repeated / duplicated SYN
    #     from an address that holds a pending or active entry is ignored (the SYN-ACK is re-sent by the timer), whatever the
    #     server's occupancy is by then. Judged on the wire: no handshake error frame to an address within 2 s (the pending
    #     entry lives for 22 s, an active one until its terminal event) of a SYN-ACK to the same address, unless the
    #     application dropped it or the server reported a terminal event for it in between (round-7 change C07-g)
    terminals = [(t, p) for (t, tag, p, _) in sev if tag in ("D", "E")]
    for p in set(q for (q, dr) in log if dr == "s2c"):
        sa_t = None
        for d in log.get((p, "s2c"), []):
            if d["kind"] == "synack":
                sa_t = d["time"]
            elif d["kind"] == "hserr" and sa_t is not None and d["time"] - sa_t < 2_000 * 10**6:
                if any(q == p and sa_t <= td <= d["time"] for (td, q) in dropped) or any(q == p and sa_t <= tt < d["time"] for (tt, q) in terminals):
                    continue
                fails.append({"oracle": "accepted_not_refused", "detail": "peer %d: the server sent a handshake error frame (%s) at %d ms, %d ms after sending this address a SYN-ACK (its entry is still pending or active)" %
                              (p, "_".join(str(x) for x in d.get("f", [])), d["time"] // 10**6, (d["time"] - sa_t) // 10**6), "signature": {"oracle": "accepted_not_refused"}})
                break
    # --- client side
    for i, evs in cev.items():
        my = [int(d["f"][2]) for d in log.get((i, "c2s"), []) if d["kind"] == "syn"]
        for (t, tag, _) in evs:
            if tag == "C":
                echo = [int(d["f"][1]) for (tt, dr, q, d) in delivered if dr == "s2c" and q == i and tt <= t and d.get("kind") == "synack"]
                if not (my and my[0] in echo):
                    fails.append({"oracle": "client_connect_sound", "detail": "client %d Connect at %d ms without a delivered SYN-ACK echoing its nonce %s (echoed %s)" %
                                  (i, t // 10**6, my[:1], echo[-3:]), "signature": {"oracle": "client_connect_sound"}})
        # every ACK the client emits answers a delivered SYN-ACK that echoes the client's own nonce
        for d in log.get((i, "c2s"), []):
            if d["kind"] == "hsack" and my:
                n = int(d["f"][1])
                okk = any(int(x["f"][2]) == n and int(x["f"][1]) == my[0] for (tt, dr, q, x) in delivered
                          if dr == "s2c" and q == i and tt <= d["time"] and x.get("kind") == "synack")
                if not okk:
                    fails.append({"oracle": "client_ack_sound", "detail": "client %d acknowledged server nonce %d at %d ms although no delivered SYN-ACK carrying it echoed the client's nonce %d" %
                                  (i, n, d["time"] // 10**6, my[0]), "signature": {"oracle": "client_ack_sound"}})
                    break
        # starting sequence numbers: first data frame of the client starts at its nonce
        dfs = [d for d in log.get((i, "c2s"), []) if d["kind"] == "D"]
        if dfs and my:
            if dfs[0]["id"] != my[0] or (dfs[0]["dgs"] and dfs[0]["dgs"][0]["seq"] != (my[0] & 0xFFFFF) and dfs[0]["dgs"][0]["frag"] == 0 and False):
                fails.append({"oracle": "agreement", "detail": "client %d: first data frame id %d but SYN nonce %d" % (i, dfs[0]["id"], my[0]), "signature": {"oracle": "agreement"}})
    # --- negotiated limits: the handshake frames of either endpoint carry that endpoint's own configuration
    U32 = 0xFFFFFFFF
    sc = sim.srv_cfg
    if sc:
        want = [min(sc["recv"], U32), min(sc["maxpkt"], U32), min(sc["alloc"], U32)]
        for (p, dr), dgs in log.items():
            if dr != "s2c":
                continue
            for d in dgs:
                if d["kind"] == "synack" and not d.get("forged") and [int(x) for x in d["f"][3:6]] != want:
                    fails.append({"oracle": "limits_agree", "detail": "SYN-ACK to peer %d advertises (max_receive_rate, max_packet_size, max_receive_alloc) = %s but the server is configured with %s" %
                                  (p, d["f"][3:6], want), "signature": {"oracle": "limits_agree", "side": "server"}})
                    break
    for i, cc in sim.clients.items():
        want = [min(cc["recv"], U32), min(cc["maxpkt"], U32), min(cc["alloc"], U32)]
        for d in log.get((i, "c2s"), []):
            if d["kind"] == "syn" and not d.get("forged") and [int(x) for x in d["f"][3:6]] != want:
                fails.append({"oracle": "limits_agree", "detail": "SYN of client %d advertises %s but the client is configured with %s" % (i, d["f"][3:6], want),
                              "signature": {"oracle": "limits_agree", "side": "client"}})
                break
    # --- configuration mismatches are refused: no Connect on either side for a pair in which one side's max_packet_size exceeds
    #     the other's max_receive_alloc, whatever happens to the error frame (forged handshake frames carry compatible limits)
    if sc:
        for i, cc in sim.clients.items():
            if min(cc["maxpkt"], U32) > min(sc["alloc"], U32) or min(sc["maxpkt"], U32) > min(cc["alloc"], U32):
                forged_syn = any(d.get("forged") and d.get("kind") == "syn" for (tt, dr, q, d) in delivered if dr == "c2s" and q == i)
                if any(tag == "C" and p == i for (t, tag, p, _) in sev) and not forged_syn:
                    fails.append({"oracle": "config_refused", "detail": "server reported Connect for peer %d although the configurations are incompatible (client max_packet_size %d / max_receive_alloc %d, server %d / %d)" %
                                  (i, cc["maxpkt"], cc["alloc"], sc["maxpkt"], sc["alloc"]), "signature": {"oracle": "config_refused", "side": "server"}})
                    break
                forged_sa = any(d.get("forged") and d.get("kind") == "synack" for (tt, dr, q, d) in delivered if dr == "s2c" and q == i)
                if any(tag == "C" for (t, tag, _) in cev.get(i, [])) and not forged_sa:
                    fails.append({"oracle": "config_refused", "detail": "client %d reported Connect although the configurations are incompatible (client max_packet_size %d / max_receive_alloc %d, server %d / %d)" %
                                  (i, cc["maxpkt"], cc["alloc"], sc["maxpkt"], sc["alloc"]), "signature": {"oracle": "config_refused", "side": "client"}})
                    break
    # --- refusals: a delivered SYN with a wrong version must be answered (if at all) by error code 0 echoing its nonce
    for (t, dr, p, d) in delivered:
        if dr == "c2s" and d.get("kind") == "syn" and int(d["f"][1]) != 3:
            nonce = int(d["f"][2])
            bad = [x for x in log.get((p, "s2c"), []) if x["kind"] == "synack" and int(x["f"][1]) == nonce]
            if bad:
                fails.append({"oracle": "refusal", "detail": "SYN with version %s from peer %d was answered with a SYN-ACK" % (d["f"][1], p), "signature": {"oracle": "refusal"}})
    # --- an established connection is not reset by a handshake error frame (stale, duplicated or forged): the handshake error kinds
    #     are reported only for a handshake that did not complete
    for i, evs in cev.items():
        seen_c = False
        for (t, tag, extra) in evs:
            if tag == "C":
                seen_c = True
            elif tag == "E" and seen_c and extra in ("ServerFull", "Version", "Config"):
                fails.append({"oracle": "established_not_reset", "detail": "client %s reported Error(%s) at %d ms after it had reported Connect: a handshake error frame reset an established connection" %
                              (i, extra, t // 10**6), "signature": {"oracle": "established_not_reset", "side": "client"}})
                break
    # --- event grammar
    for i, evs in cev.items():
        m = c08.monitor([(t, tag) for (t, tag, _) in evs], "client %d" % i)
        if m:
            fails.append({"oracle": "event_grammar", "detail": m, "signature": {"oracle": "event_grammar", "side": "client"}})
    return fails
