"""C06 — receiver memory stays within max_receive_alloc; senders respect it."""
import vlib
from checkflow import Interactive
from props import hc_common as H
from props import c03
from gen_hc import Sim, Net, pick_cfg, random_traffic, pick_len, parse_probe, F

PROP = "C06"
LAKE_TARGETS = ["Uflow.Props.C06", "Uflow.Props.C06Hc", "Uflow.Props.C06NoDud", "uflow_driver"]
PROPS_FILES = ["C06", "C06Hc", "C06NoDud"]
TRUSTED_BASE = [
    "Lean 4.33 kernel; axioms per theorem under coverage.axioms",
    "tools/extract_consts.py (MAX_FRAGMENT_SIZE, MAX_PACKET_WINDOW_SIZE)",
    "hand-written models PRecv (assembly window allocation ledger, data entries) and PSend, tied to the code by hc correspondence; the cfg(uflow_verif) probe returns the implementation's alloc counters, assembly-buffer bytes, undelivered payload bytes and ack-queue length, compared exactly with the model's",
]
ASSUMPTIONS = ["'memory held for packet data' = capacity of live assembly buffers + payloads still referenced by the receive window arrays (what the probe sums); allocator overhead is outside the model"]
RULE = ("(a) hostile streams: CRC-valid data frames with claimed fragment counts up to 65536, ids in/out of the window, never-completing packets, cross-channel window "
        "parents, application never/rarely reading, interleaved with honest traffic; (b) honest two-endpoint scenarios with small allocation limits and windows. After "
        "every tick the probe is checked: receive alloc <= ceil(max_receive_alloc), assembly bytes + undelivered payload bytes <= ceil(max_receive_alloc), send alloc <= "
        "ceil(peer limit), packets outstanding <= window. Non-trivial: some receive allocation was in use. Distinct by (limits, windows, peak usage bucket, hostile kinds).")

def hostile_alias(r, it, codec, tier, i):
    """the same sequence id named with two different channels: the receive window is pinned by a missing packet, complete packets
    that wait for it fill the allocation, and stray datagrams re-use their sequence ids under the channel id of a channel that has
    already moved on. Whatever the receiver does with them, what it holds stays within its limit."""
    cfg = pick_cfg(r)
    k = r.pick([3, 4, 4, 6]); cfg["allocA"] = cfg["allocB"] = k * F; cfg["pw"] = r.pick([16, 64])
    sim = Sim(r, cfg, inter=it)
    sim.tick += 1; sim.set_time(5_000_000)
    pr = sim.probe("B")
    pb = int(pr["pr"][0]); fid = [int(pr["aq"][0])]
    X, Y = r.pick([(0, 1), (2, 0), (1, 3)])
    def inject(seq, chan, wpl, cpl, ln):
        txt = "data %d 0 1 %d %d %d %d 0 0 %s" % (fid[0] & 0xFFFFFFFF, (pb + seq) & 0xFFFFF, chan, wpl, cpl, "-" if ln == 0 else "@%d:%d" % (900 + seq + 40 * i, ln))
        fid[0] += 1
        hx = codec.op("enc " + txt)
        if len(hx) > 20:
            sim.op("B raw " + hx)
    T = k + r.range(1, 3)
    inject(T, X, T, 0, 10)                               # channel X moves on to beyond T; the window stays pinned behind id 0
    sim.op("B step"); sim.op("B recv"); sim.probe("B")
    for rnd in range(r.range(2, 4)):
        for S in range(1, k + 1):
            inject(S, Y, S, S, F)                        # complete, held: waits for id 0 on its channel
        sim.op("B step"); sim.op("B recv"); sim.probe("B")
        for S in range(1, k + 1):
            inject(S, X, S, 0, r.pick([10, F]))          # stray: same ids, channel X (already beyond them)
        sim.op("B step"); sim.op("B recv"); sim.probe("B")
        for S in range(T + 1 + rnd * k, T + 1 + (rnd + 1) * k):
            inject(S, Y, S, S, F)                        # more data that would only fit if allocation had been handed back
        sim.op("B step"); sim.op("B recv"); sim.probe("B")
    return sim

def hostile_mem(r, it, codec, tier, i):
    cfg = pick_cfg(r)
    cfg["allocA"] = cfg["allocB"] = r.pick([3000, 6000, 20000, 100000])
    sim = Sim(r, cfg, inter=it)
    net = Net(latency=r.pick([0, 1_000_000]))
    sim.run(r.range(2, 10), 5_000_000, net, net, random_traffic(r, rate_pm=400, max_len=2000), probe_every=1)
    victim = "B"
    reads = r.pick([1, 3, 1000])      # the application reads (step+recv) every `reads` rounds
    for k in range(r.range(10, 40)):
        if sim.dead:
            break
        p = sim.probe(victim)
        if p is None:
            break
        base = int(p["pr"][0]); fbase = int(p["aq"][0])
        n = r.range(1, 4)
        dgs = []
        for _ in range(n):
            seq = (base + r.weighted([(0, 3), (1, 3), (2, 2), (r.below(cfg["pw"]), 3), (cfg["pw"] - 1, 1)])) & 0xFFFFF
            flast = r.weighted([(0, 4), (1, 3), (2, 2), (4, 1), (65535, 1), (r.range(1, 70), 1)])
            fid = r.below(flast + 1)
            ln = F if fid < flast else r.pick([0, 1, 700, F])
            ch = r.below(4)
            # window parents on other channels, channel parents, etc.
            wpl = r.weighted([(0, 4), (1, 2), (2, 1), (r.below(8), 1)])
            cpl = r.weighted([(0, 4), (wpl, 1), (wpl + 1, 1)])
            if cpl != 0 and (wpl == 0 or cpl < wpl):
                cpl = 0
            dgs.append("%d %d %d %d %d %d %s" % (seq, ch, wpl, cpl, fid, flast, "-" if ln == 0 else "@%d:%d" % (r.below(1 << 30), ln)))
        if r.chance(1, 3):
            # cross-channel parents: k small packets on one channel, then a full-size packet on another channel whose
            # channel parent is claimed to be k ids back (so it is never deliverable) while its window parent lead
            # lets the window pass it
            k2 = r.range(1, 3); ch = r.below(4); ch2 = (ch + 1) % 4
            dgs = ["%d %d 0 0 0 0 @%d:%d" % ((base + j) & 0xFFFFF, ch, r.below(1 << 30), r.range(1, 40)) for j in range(k2)]
            dgs.append("%d %d %d %d 0 0 @%d:%d" % ((base + k2) & 0xFFFFF, ch2, k2, k2, r.below(1 << 30), r.pick([F, F, 900])))
        txt = "data %d %d %d %s" % ((fbase + r.below(3)) & 0xFFFFFFFF, r.below(2), len(dgs), " ".join(dgs))
        hx = codec.op("enc " + txt)
        if len(hx) > 20:
            sim.op("%s raw %s" % (victim, hx))
        if k % reads == reads - 1:
            sim.run(1, 5_000_000, net, net)
        sim.probe(victim)
    sim.run(3, 50_000_000, net, net, probe_every=1)
    return sim

def hostile_acks(r, it, codec, tier, i):
    """frame ids 32 or more apart (every frame opens a new ack group) arriving much faster than the victim's own
    send rate lets it acknowledge: the queue of pending ack groups must stay bounded by the frame window."""
    cfg = pick_cfg(r)
    cfg["bwA"] = cfg["bwB"] = r.pick([1472, 20_000, 2_000_000])
    if r.chance(1, 2):
        # the flood crosses the wrap of the 32-bit frame ids (a hostile peer chooses its initial frame id: it is its handshake nonce)
        cfg["fbA"] = (1 << 32) - r.pick([40, 200, 2000])
    sim = Sim(r, cfg, inter=it)
    net = Net(latency=0)
    sim.run(r.range(1, 5), 5_000_000, net, net, random_traffic(r, rate_pm=300, max_len=500), probe_every=1)
    p = sim.probe("B")
    if p is None:
        return sim
    fid = int(p["aq"][0])
    total = r.pick([300, 1000, 3000]) if tier == "quick" else r.pick([1000, 5000, 20000])
    for k in range(total):
        if sim.dead:
            break
        fid = (fid + r.pick([32, 32, 33, 40, 64, cfg["fw"] - 1])) & 0xFFFFFFFF
        sim.op("B frame data %d %d 0" % (fid, r.below(2)))
        if k % r.pick([50, 200, 1000]) == 0:
            sim.run(1, r.pick([1_000_000, 20_000_000]), net, net, probe_every=1)
    sim.probe("B")
    sim.run(3, 50_000_000, net, net, probe_every=1)
    return sim

def streams(rng, tier, ctx):
    n = 30 if tier == "quick" else 500
    it = Interactive("hc"); codec = Interactive("codec")
    cases = []; meta = {}
    try:
        for i in range(n):
            r = rng.fork()
            it.op("=== gen%d" % i)
            if i % 4 == 3:
                # near the limit: sub-fragment and multi-fragment sizes whose raw and fragment-rounded sums straddle it
                cfg = pick_cfg(r)
                k = r.pick([3, 4, 5]); cfg["allocA"] = cfg["allocB"] = k * F - r.pick([0, 1, 700])
                cfg["bwA"] = cfg["bwB"] = 2_000_000
                sim = Sim(r, cfg, inter=it)
                def tr(sim, ep):
                    if ep == "A" and r.chance(1, 2):
                        for _ in range(r.range(1, 3)):
                            sim.send("A", r.below(3), r.pick([1, 2, 3, 3]), r.pick([100, 700, F - 1, F + 1, 2 * F + 1, 2 * F + 600, (k - 1) * F + 1, r.range(1, (k - 1) * F)]))
                sim.run(r.range(30, 80), r.pick([5_000_000, 20_000_000]), Net(latency=r.pick([0, 10_000_000])), Net(latency=0), tr, probe_every=1)
                H.finish(sim, drain=True, max_ticks=100)
            elif i % 5 == 4:
                sim = hostile_acks(r, it, codec, tier, i)
            elif i % 6 == 1:
                # honest endpoints, lossy link, multi-fragment packets of every mode partly lost and passed by the window;
                # after the link has been loss-free long enough for a sync round, an empty window must hold no allocation
                cfg = pick_cfg(r)
                cfg["allocA"] = cfg["allocB"] = r.pick([4 * F, 8 * F, 100_000]); cfg["bwA"] = cfg["bwB"] = 2_000_000
                sim = Sim(r, cfg, inter=it)
                lossy = Net(loss=r.pick([200, 400]), latency=r.pick([0, 5_000_000]))
                def tr(sim, ep):
                    if ep == "A" and r.chance(1, 2):
                        sim.send("A", r.below(3), r.pick([0, 1, 1, 2, 3]), r.pick([100, F + 1, 2 * F + 10, 3 * F - 1]))
                sim.run(r.range(30, 80), r.pick([5_000_000, 20_000_000]), lossy, Net(latency=lossy.latency), tr, probe_every=5)
                H.finish(sim, drain=True, max_ticks=300)
                sim.run(r.range(120, 200), 50_000_000, Net(latency=lossy.latency), Net(latency=lossy.latency))
                if sim.drained and sim.quiescent():
                    # only then is "the window is empty" the same as "no packet is under way": a sender that is still busy (slowly,
                    # the rate controller near its floor) legitimately has a partly assembled packet at the receiver's window base
                    sim.settled_at = sum(1 for op in sim.ops if op.endswith(" probe")) + 1
                for ep in ("A", "B"):
                    sim.probe(ep)
            elif i % 10 == 6:
                sim = hostile_alias(r, it, codec, tier, i)
            elif i % 3 != 2:
                sim = hostile_mem(r, it, codec, tier, i)
            else:
                cfg = pick_cfg(r)
                cfg["pw"] = r.pick([4, 16, 64]); cfg["allocA"] = cfg["allocB"] = r.pick([3 * F, 5 * F + 100, 20000])
                sim = H.lossy_scenario(r, it, tier, cfg=cfg, max_len=min(6000, cfg["allocA"]))
                H.finish(sim, drain=True, max_ticks=200)
            cid = "m%d" % i
            cases.append((cid, sim.ops)); meta[cid] = sim
    finally:
        it.close(); codec.close()
    out = [{"name": "memory", "mode": "hc", "cases": cases, "meta": meta, "case_timeout": 60}]
    # real endpoints: the limits of the two sides differ, the side with the larger limits floods the other one, whose
    # application reads slowly: every Reliable packet must still arrive (nothing is discarded for lack of receive memory),
    # i.e. each sender honours the limit its PEER advertised in the handshake, not its own
    from props import ep_common as E
    ne = 6 if tier == "quick" else 80
    it = Interactive("ep")
    ecases = []; emeta = {}
    try:
        for i in range(ne):
            r = rng.fork()
            it.op("=== gene%d" % i)
            sim = E.EpSim(r, inter=it)
            small = dict(E.DEFAULT_EP, maxpkt=10_000, alloc=r.pick([10_000, 14_480, 30_000]))
            big = dict(E.DEFAULT_EP, maxpkt=10_000)          # larger receive allocation, same packet size limit (the handshake refuses otherwise)
            flooder = r.pick(["c", "s"])
            sim.srv(8, 8, 1, small if flooder == "c" else big)
            nets = {"c2s": E.Net(latency=r.pick([0, 2_000_000])), "s2c": E.Net(latency=0)}
            sim.cli(0, big if flooder == "c" else small, nets)
            sim.run(10, 5_000_000, nets)
            npk = r.range(10, 30)
            for _ in range(npk):
                sim.send(flooder, 0, r.below(3), 3, r.pick([10_000, 9_000, 4_000, 1_449]))
            # the flooded side steps 25 times less often than the flooder
            slow = "s" if flooder == "c" else "c"
            for k in range(r.range(300, 600)):
                sim.tick += 1
                sim.set_time(sim.time + 1_000_000)
                if slow == "s":
                    if k % 25 == 0: sim.sstep(nets)
                    sim.cstep(0, nets)
                else:
                    sim.sstep(nets)
                    if k % 25 == 0: sim.cstep(0, nets)
            sim.run(400, 5_000_000, nets)
            sim.flooder = flooder
            cid = "e%d" % i
            ecases.append((cid, sim.ops)); emeta[cid] = sim
    finally:
        it.close()
    out.append({"name": "asymmetric_limits", "mode": "ep", "cases": ecases, "meta": emeta, "case_timeout": 120})
    return out

def signature(ops, outs):
    peak = 0
    for op, o in zip(ops, outs):
        if op.endswith(" probe") and o.startswith("fa="):
            p = parse_probe(o); peak = max(peak, int(p["pr"][2]))
    if peak == 0:
        return None
    return (ops[1][:60], min(peak // 1448, 12), sum(1 for op in ops if " raw " in op) > 0)

def ep_oracle(stream, cid, ops, outs):
    from props import ep_common as E
    fails = E.trap_failures(ops, outs)
    sim = stream["meta"][cid]
    sev, cev, log, delivered, calls = E.replay(ops, outs)
    fl = sim.flooder
    got = [x for (t, tag, p, x) in sev if tag == "R" and p == 0] if fl == "c" else [x for (t, tag, x) in cev.get(0, []) if tag == "R"]
    want = [p.digest for p in sim.sent.get((fl, 0), []) if p.mode == 3]
    have = {}
    for g in got:
        have[g] = have.get(g, 0) + 1
    for k, d in enumerate(want):
        if have.get(d, 0) == 0:
            fails.append({"oracle": "no_discard", "detail": "Reliable packet #%d (%s) sent by the %s to a peer with a smaller receive allocation was never delivered (%d of %d arrived): discarded for lack of receive memory" %
                          (k, d, "client" if fl == "c" else "server", len(got), len(want)), "signature": {"oracle": "no_discard", "flooder": fl}})
            break
        have[d] -= 1
    return fails

def oracle(stream, cid, ops, outs):
    if stream["mode"] == "ep":
        return ep_oracle(stream, cid, ops, outs)
    fails = H.trap_failures(ops, outs)
    sim = stream["meta"][cid]
    W = sim.cfg["pw"]
    nprobe = 0
    tx_limit = {}          # endpoint -> tx_alloc_limit it was created with (= what the peer advertised)
    for op in ops[:6]:
        w = op.split(" ")
        if len(w) > 11 and w[1] == "new":
            tx_limit[w[0]] = int(w[11])
    for op, o in zip(ops, outs):
        if not (op.endswith(" probe") and o.startswith("fa=")):
            continue
        ep = op.split(" ")[0]
        p = parse_probe(o)
        nprobe += 1; p["_idx"] = nprobe
        alloc, mx, asm, data = int(p["pr"][2]), int(p["pr"][3]), int(p["pr"][4]), int(p["pr"][5])
        if alloc > mx:
            fails.append({"oracle": "recv_alloc_bound", "detail": "%s: receive alloc %d > limit %d" % (ep, alloc, mx), "signature": {"oracle": "recv_alloc_bound"}}); break
        if asm + data > mx:
            fails.append({"oracle": "recv_held_bound", "detail": "%s: holds %d assembly + %d undelivered payload bytes > limit %d (alloc counter %d)" % (ep, asm, data, mx, alloc),
                          "signature": {"oracle": "recv_held_bound"}}); break
        if getattr(sim, "settled_at", None) is not None and int(p.get("_idx", -1)) >= sim.settled_at and p["pr"][0] == p["pr"][1] and alloc != 0:
            fails.append({"oracle": "recv_alloc_released", "detail": "%s: the receive window is empty (base = end = %s) but %d bytes of receive allocation are still counted: "
                          "the next packets within the advertised limit would be discarded" % (ep, p["pr"][0], alloc), "signature": {"oracle": "recv_alloc_released"}}); break
        sa, smx = int(p["ps"][2]), int(p["ps"][3])
        want = tx_limit.get(ep)
        if want is not None and smx != (want + 1447) // 1448 * 1448:
            fails.append({"oracle": "send_limit_agrees", "detail": "%s: the sender works with an allocation limit of %d bytes but the peer advertised %d (%d rounded up to whole fragments)" %
                          (ep, smx, want, (want + 1447) // 1448 * 1448), "signature": {"oracle": "send_limit_agrees"}}); break
        if sa > smx:
            fails.append({"oracle": "send_alloc_bound", "detail": "%s: send alloc %d > peer limit %d" % (ep, sa, smx), "signature": {"oracle": "send_alloc_bound"}}); break
        if int(p["pb"][2]) > smx:
            fails.append({"oracle": "send_alloc_bound", "detail": "%s: window alloc sum %s > peer limit %d" % (ep, p["pb"][2], smx), "signature": {"oracle": "send_alloc_bound"}}); break
        naq = int(p["aq"][1]); fw = sim.cfg["fw"]
        if naq > fw // 32 + 2:
            fails.append({"oracle": "ack_queue_bound", "detail": "%s: %d acknowledgement groups pending with a frame window of %d (bound %d)" % (ep, naq, fw, fw // 32 + 2),
                          "signature": {"oracle": "ack_queue_bound"}}); break
        out = (int(p["ps"][1]) - int(p["ps"][0])) % (1 << 20)
        if out > W:
            fails.append({"oracle": "send_window_bound", "detail": "%s: %d packets outstanding > window %d" % (ep, out, W), "signature": {"oracle": "send_window_bound"}}); break
    return fails
