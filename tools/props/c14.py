"""C14 — the allowed send rate obeys the RFC 5348 bounds."""
import struct
import vlib
from checkflow import Interactive
from props import hc_common as H
from props import c13
from gen_hc import Sim, Net, pick_cfg, random_traffic, pick_len

PROP = "C14"
LAKE_TARGETS = ["Uflow.Props.C14", "uflow_driver"]
TRUSTED_BASE = [
    "Lean 4.33 kernel; axioms per theorem under coverage.axioms",
    "tools/extract_consts.py (MSS, INITIAL_TCP_WINDOW, MINIMUM_RATE, NOFEEDBACK_INITIAL_MS)",
    "hand-written model Uflow/Model/Rate.lean generic over FloatOps; theorems hold for every FloatOps; the executable Float instance is compared bit-for-bit with the code (send_rate, rtt bits, rto, mode in every probe)",
]
ASSUMPTIONS = ["that the IEEE evaluation of the throughput equation approximates the real-valued formula is modelled, not verified (bit-exact correspondence ties the Float instance to the code)"]
RULE = c13.RULE + " Oracle clauses: rate <= ceiling; rate >= 23 once sending; no increase and keep-or-halve on steps without feedback; <= max(2x, W_init/rtt) per slow-start feedback; <= max(X_Bps, floor) in the equation phase."

MINR = 23

def streams(rng, tier, ctx):
    return c13.streams(rng, tier, ctx)

signature = c13.signature

def eqn(rtt, p):
    """eval_tcp_throughput(rtt, p) of send_rate.rs, including the saturating `as u32`."""
    import math
    s = 1472.0
    try:
        f_p = math.sqrt(p * 2.0 / 3.0) + 12.0 * math.sqrt(p * 3.0 / 8.0) * p * (1.0 + 32.0 * p * p)
        d = rtt * f_p
        x = s / d if d != 0.0 else (float("inf") if s > 0 else float("nan"))
    except (ValueError, OverflowError):
        return 0
    if x != x:
        return 0
    return max(0, min(int(x) if abs(x) != float("inf") else (2**32 - 1 if x > 0 else 0), 2**32 - 1))

def oracle(stream, cid, ops, outs):
    fails = H.trap_failures(ops, outs)
    sim = stream["meta"][cid]
    # walk the ops: for each endpoint, consecutive probes (after every tick) and whether an ack frame was handed to it in between
    last = {}; got_ack = {"A": False, "B": False}; eqn_entry = {}
    kind_of = {}
    for op, o in zip(ops, outs):
        t = op.split(" ")
        if t[0] == "fwd" and o == "ok":
            src, idx, dst = t[1], int(t[2]), t[3]
            fr = sim.frames[src][idx] if idx < len(sim.frames[src]) else None
            if fr is not None and fr["kind"] == "A":
                got_ack[dst] = True
        elif len(t) > 1 and t[1] == "probe" and o.startswith("fa="):
            ep = t[0]
            p = __import__("gen_hc").parse_probe(o)
            rate = int(p["rate"][0]); mx = int(p["rate"][1]); mode = int(p["rate"][2]); tcp = int(p["rate"][3])
            rttb = p["rate"][6]
            if rate > mx:
                fails.append({"oracle": "rate_le_ceiling", "detail": "%s: send rate %d > max_send_rate %d (mode %d)" % (ep, rate, mx, mode),
                              "signature": {"oracle": "rate_le_ceiling", "mode": mode}})
                return fails
            if mode >= 1 and rate < MINR:
                fails.append({"oracle": "rate_floor", "detail": "%s: send rate %d below s/64" % (ep, rate), "signature": {"oracle": "rate_floor"}})
                return fails
            # the equation, recomputed from the RTT estimate and the loss event rate of the last feedback (IEEE double, same
            # operation order as eval_tcp_throughput); skipped until a feedback after the one that entered the phase has been
            # handled (that one sets the rate from the slow-start target, within the bisection's tolerance)
            if mode == 2 and rttb != "-" and len(p["rate"]) > 10:
                key = (rttb, p["rate"][10])
                if ep not in eqn_entry or eqn_entry[ep][0] != "in":
                    eqn_entry[ep] = ("in", key)
                elif key != eqn_entry[ep][1]:
                    rtt = c13.bits_to_float(rttb); pl = c13.bits_to_float(p["rate"][10])
                    x = eqn(rtt, pl)
                    if rate > max(x, MINR):
                        fails.append({"oracle": "rate_le_eqn_recomputed", "detail": "%s: send rate %d > X_Bps(rtt %.6f s, p %.6g) = %d (the implementation's cached value is %d)" %
                                      (ep, rate, rtt, pl, x, tcp), "signature": {"oracle": "rate_le_eqn_recomputed"}})
                        return fails
            elif mode != 2:
                eqn_entry.pop(ep, None)
            if mode == 2 and rate > max(tcp, MINR):
                fails.append({"oracle": "rate_le_eqn", "detail": "%s: send rate %d > throughput equation %d" % (ep, rate, tcp), "signature": {"oracle": "rate_le_eqn"}})
                return fails
            if ep in last:
                prate, pmode, prtt = last[ep]
                if not got_ack[ep] and pmode >= 1:
                    if rate > prate:
                        fails.append({"oracle": "nofb_no_increase", "detail": "%s: rate %d -> %d without feedback (mode %d)" % (ep, prate, rate, pmode),
                                      "signature": {"oracle": "nofb_no_increase"}})
                        return fails
                    if pmode == 1 and mode == 1 and rate not in (prate, max(prate // 2, MINR)):
                        fails.append({"oracle": "nofb_keep_or_halve", "detail": "%s: slow start rate %d -> %d on expiry" % (ep, prate, rate),
                                      "signature": {"oracle": "nofb_keep_or_halve"}})
                        return fails
                if got_ack[ep] and pmode == 1 and mode == 1 and rttb != "-":
                    rtt = c13.bits_to_float(rttb)
                    init = min(int(4380.0 / rtt), 2**32 - 1) if rtt > 0 else 2**32 - 1
                    if rate > max(2 * prate, init):
                        fails.append({"oracle": "slowstart_double", "detail": "%s: slow start %d -> %d exceeds max(2x, %d)" % (ep, prate, rate, init),
                                      "signature": {"oracle": "slowstart_double"}})
                        return fails
            last[ep] = (rate, mode, rttb)
            got_ack[ep] = False
    return fails
