"""C14 — the allowed send rate obeys the RFC 5348 bounds."""
import struct
import vlib
from checkflow import Interactive
from props import hc_common as H
from props import c13
from gen_hc import Sim, Net, pick_cfg, random_traffic, pick_len

PROP = "C14"
LAKE_TARGETS = ["Uflow.Props.C14", "uflow_driver"]
TRUSTED_BASE = [
    "Lean 4.33 kernel; axioms per theorem under coverage.axioms",
    "tools/extract_consts.py (MSS, INITIAL_TCP_WINDOW, MINIMUM_RATE, NOFEEDBACK_INITIAL_MS)",
    "hand-written model Uflow/Model/Rate.lean generic over FloatOps; theorems hold for every FloatOps; the executable Float instance is compared bit-for-bit with the code (send_rate, rtt bits, rto, mode in every probe)",
]
ASSUMPTIONS = ["that the IEEE evaluation of the throughput equation approximates the real-valued formula is modelled, not verified (bit-exact correspondence ties the Float instance to the code)"]
RULE = c13.RULE.split(" Plus real Client/Server")[0] + " Non-trivial: the endpoint emitted >= 5 frames. Oracle clauses: rate <= ceiling; rate >= 23 once sending; no increase and keep-or-halve on steps without feedback; <= max(2x, W_init/rtt) per slow-start feedback; <= max(X_Bps, floor) in the equation phase."

MINR = 23

def component_stream(rng, tier):
    """SendRateComp on its own (mode `rate`): arbitrary feedback sequences, incl. values only a misbehaving or very unusual peer
    produces (RTT samples 0 ms .. minutes, receive rates 0 .. u32::MAX, loss event rates 0, 1e-9 .. 1, repeated / minimally changed)."""
    import struct
    def bits(x): return struct.unpack(">Q", struct.pack(">d", x))[0]
    n = 30 if tier == "quick" else 600
    it = Interactive("rate")
    cases = []; meta = {}
    try:
        for i in range(n):
            r = rng.fork()
            it.op("=== gen%d" % i)
            ops = []; outs = []
            def op(line):
                o = it.op(line); ops.append(line); outs.append(o); return o
            mx = r.pick([1472, 10_000, 2_000_000, 2_000_000, 20_000_000, 2**31, 2**32 - 1])
            op("new %d" % mx)
            t = r.pick([0, 5, 1000])
            op("sent %d" % t)
            p = 0.0
            rtt = r.pick([0, 1, 10, 100, 100, 1000])
            recv = r.pick([1000, 100_000, 10_000_000])
            grow = r.chance(1, 2)              # receive rate follows the send rate (the sender is not application limited)
            for k in range(r.range(20, 120)):
                if outs and (outs[-1].startswith("trap") or outs[-1] in ("hang", "dead")):
                    break
                t += r.pick([0, 1, 10, 100, 100, 1000, 1000, 5000, 30000])
                what = r.weighted([("fb", 6), ("none", 3), ("sent", 2)])
                if what == "sent":
                    op("sent %d" % t); continue
                if what == "none":
                    op("step %d" % t); continue
                kind = r.weighted([("same", 4), ("tiny_first", 2 if p == 0.0 else 0), ("up", 2), ("down", 2), ("ulp", 1), ("eps", 1), ("big", 1), ("zero", 1), ("one", 1)])
                if kind == "tiny_first": p = r.pick([1e-9, 9e-7, 1e-6, 1.1e-6, 1e-5])
                elif kind == "up": p = min(1.0, p * r.pick([1.5, 2, 10]) if p > 0 else r.pick([1e-4, 0.01, 0.1]))
                elif kind == "down": p = p / r.pick([1.01, 2, 10])
                elif kind == "ulp": p = struct.unpack(">d", struct.pack(">Q", bits(p) + 1))[0] if p < 1.0 else p
                elif kind == "eps": p = min(1.0, p + r.pick([1e-7, 9e-7, 1e-6, 2e-6]))
                elif kind == "big": p = r.pick([0.3, 0.9, 1.0])
                elif kind == "zero": p = 0.0
                elif kind == "one": p = 1.0
                if r.chance(1, 6):
                    rtt = r.pick([0, 1, 10, 100, 1000, 60000])
                if grow and outs and outs[-1].startswith("rate="):
                    recv = min(2**32 - 1, int(outs[-1].split("rate=")[1].split(",")[0]))
                elif r.chance(1, 5):
                    recv = r.pick([0, 1, 1000, 100_000, 10_000_000, 2**32 - 1])
                op("step %d fb %d %d %d %d" % (t, rtt, recv, bits(p), r.pick([0, 0, 0, 1])))
            cid = "q%d" % i
            cases.append((cid, ops)); meta[cid] = None
    finally:
        it.close()
    return {"name": "component", "mode": "rate", "cases": cases, "meta": meta, "case_timeout": 30}

def streams(rng, tier, ctx):
    return c13.streams(rng, tier, ctx, with_ep=False) + [component_stream(rng, tier)]

def component_oracle(ops, outs):
    import struct
    fails = []
    for i, o in enumerate(outs):
        if o.startswith("trap") or o in ("hang", "abort"):
            # with arbitrary feedback the only admissible trap is a clock running backwards, which the generator never produces
            return [{"oracle": "no_trap", "detail": "op#%d `%s` -> %s" % (i, ops[i][:100], o), "signature": {"oracle": "no_trap", "kind": o, "at": "rate-step"}}]
    prev = None; mx = None; prev_p = 0.0; eqn_key = None; rtt_prev = None
    for op, o in zip(ops, outs):
        w = op.split(" ")
        if w[0] == "new":
            mx = int(w[1]); rtt_prev = None; continue
        if w[0] != "step" or not o.startswith("rate="):
            continue
        f = o.split(" ")[0][5:].split(",")
        rate, mode, tcp, rttb, pbits = int(f[0]), int(f[2]), int(f[3]), f[6], int(f[10])
        fb = len(w) > 2
        if rate > mx:
            return [{"oracle": "rate_le_ceiling", "detail": "send rate %d > max_send_rate %d after `%s`" % (rate, mx, op), "signature": {"oracle": "rate_le_ceiling", "mode": mode}}]
        if mode >= 1 and mx >= MINR and rate < MINR:
            return [{"oracle": "rate_floor", "detail": "send rate %d below s/64 after `%s`" % (rate, op), "signature": {"oracle": "rate_floor"}}]
        if prev is not None and not fb and prev[1] >= 1 and rate > prev[0]:
            return [{"oracle": "nofb_no_increase", "detail": "rate %d -> %d without feedback (`%s`)" % (prev[0], rate, op), "signature": {"oracle": "nofb_no_increase"}}]
        if fb:
            # RTT estimate: the first sample, afterwards the 0.9 / 0.1 moving average of the samples (same IEEE operations, so bit-exact)
            sample = int(w[3]) / 1000.0
            exp = sample if rtt_prev is None else (1.0 - 0.1) * rtt_prev + 0.1 * sample
            if rttb == "-" or c13.bits_to_float(rttb) != exp:
                return [{"oracle": "rtt_ewma", "detail": "RTT estimate %s after a sample of %s ms on a previous estimate of %s; the 0.9/0.1 moving average is %r (`%s`)" %
                         ("-" if rttb == "-" else repr(c13.bits_to_float(rttb)), w[3], rtt_prev, exp, op), "signature": {"oracle": "rtt_ewma"}}]
            rtt_prev = exp
            p = struct.unpack(">d", struct.pack(">Q", int(w[5])))[0]
            # section 4.3: the first feedback that reports a loss event rate above the previous one ends slow start
            if prev is not None and prev[1] == 1 and p > prev_p and mode != 2:
                return [{"oracle": "loss_ends_slow_start", "detail": "feedback with loss event rate %.3g (previous %.3g) left the sender in slow start (`%s`)" % (p, prev_p, op),
                         "signature": {"oracle": "loss_ends_slow_start"}}]
            prev_p = p
        if mode == 2 and rttb != "-":
            key = (rttb, pbits)
            if eqn_key is None:
                eqn_key = key
            elif key != eqn_key or eqn_key == "later":
                eqn_key = "later"
                rtt = c13.bits_to_float(rttb); pl = struct.unpack(">d", struct.pack(">Q", pbits))[0]
                x = eqn(rtt, pl)
                if rate > max(x, MINR):
                    return [{"oracle": "rate_le_eqn_recomputed", "detail": "send rate %d > X_Bps(rtt %.6f s, p %.6g) = %d after `%s`" % (rate, rtt, pl, x, op),
                             "signature": {"oracle": "rate_le_eqn_recomputed"}}]
        elif mode != 2:
            eqn_key = None
        prev = (rate, mode)
    return fails

def signature(ops, outs):
    if ops and ops[0].startswith("new "):
        steps = [o for op, o in zip(ops, outs) if op.startswith("step") and o.startswith("rate=")]
        if len(steps) < 5:
            return None
        modes = tuple(sorted(set(o.split(",")[2] for o in steps)))
        return ("component", ops[0], modes, min(len(steps) // 20, 6))
    return c13.signature(ops, outs)

def eqn(rtt, p):
    """eval_tcp_throughput(rtt, p) of send_rate.rs, including the saturating `as u32`."""
    import math
    s = 1472.0
    try:
        f_p = math.sqrt(p * 2.0 / 3.0) + 12.0 * math.sqrt(p * 3.0 / 8.0) * p * (1.0 + 32.0 * p * p)
        d = rtt * f_p
        x = s / d if d != 0.0 else (float("inf") if s > 0 else float("nan"))
    except (ValueError, OverflowError):
        return 0
    if x != x:
        return 0
    return max(0, min(int(x) if abs(x) != float("inf") else (2**32 - 1 if x > 0 else 0), 2**32 - 1))

def oracle(stream, cid, ops, outs):
    if stream["mode"] == "rate":
        return component_oracle(ops, outs)
    fails = H.trap_failures(ops, outs)
    sim = stream["meta"][cid]
    # walk the ops: for each endpoint, consecutive probes (after every tick) and whether an ack frame was handed to it in between
    last = {}; got_ack = {"A": False, "B": False}; eqn_entry = {}
    kind_of = {}
    for op, o in zip(ops, outs):
        t = op.split(" ")
        if t[0] == "fwd" and o == "ok":
            src, idx, dst = t[1], int(t[2]), t[3]
            fr = sim.frames[src][idx] if idx < len(sim.frames[src]) else None
            if fr is not None and fr["kind"] == "A":
                got_ack[dst] = True
        elif len(t) > 1 and t[1] == "probe" and o.startswith("fa="):
            ep = t[0]
            p = __import__("gen_hc").parse_probe(o)
            rate = int(p["rate"][0]); mx = int(p["rate"][1]); mode = int(p["rate"][2]); tcp = int(p["rate"][3])
            rttb = p["rate"][6]
            if rate > mx:
                fails.append({"oracle": "rate_le_ceiling", "detail": "%s: send rate %d > max_send_rate %d (mode %d)" % (ep, rate, mx, mode),
                              "signature": {"oracle": "rate_le_ceiling", "mode": mode}})
                return fails
            if mode >= 1 and rate < MINR:
                fails.append({"oracle": "rate_floor", "detail": "%s: send rate %d below s/64" % (ep, rate), "signature": {"oracle": "rate_floor"}})
                return fails
            # the equation, recomputed from the RTT estimate and the loss event rate of the last feedback (IEEE double, same
            # operation order as eval_tcp_throughput); skipped until a feedback after the one that entered the phase has been
            # handled (that one sets the rate from the slow-start target, within the bisection's tolerance)
            if mode == 2 and rttb != "-" and len(p["rate"]) > 10:
                key = (rttb, p["rate"][10])
                if ep not in eqn_entry or eqn_entry[ep][0] != "in":
                    eqn_entry[ep] = ("in", key)
                elif key != eqn_entry[ep][1]:
                    rtt = c13.bits_to_float(rttb); pl = c13.bits_to_float(p["rate"][10])
                    x = eqn(rtt, pl)
                    if rate > max(x, MINR):
                        fails.append({"oracle": "rate_le_eqn_recomputed", "detail": "%s: send rate %d > X_Bps(rtt %.6f s, p %.6g) = %d (the implementation's cached value is %d)" %
                                      (ep, rate, rtt, pl, x, tcp), "signature": {"oracle": "rate_le_eqn_recomputed"}})
                        return fails
            elif mode != 2:
                eqn_entry.pop(ep, None)
            if mode == 2 and rate > max(tcp, MINR):
                fails.append({"oracle": "rate_le_eqn", "detail": "%s: send rate %d > throughput equation %d" % (ep, rate, tcp), "signature": {"oracle": "rate_le_eqn"}})
                return fails
            if ep in last:
                prate, pmode, prtt = last[ep]
                if not got_ack[ep] and pmode >= 1:
                    if rate > prate:
                        fails.append({"oracle": "nofb_no_increase", "detail": "%s: rate %d -> %d without feedback (mode %d)" % (ep, prate, rate, pmode),
                                      "signature": {"oracle": "nofb_no_increase"}})
                        return fails
                    if pmode == 1 and mode == 1 and rate not in (prate, max(prate // 2, MINR)):
                        fails.append({"oracle": "nofb_keep_or_halve", "detail": "%s: slow start rate %d -> %d on expiry" % (ep, prate, rate),
                                      "signature": {"oracle": "nofb_keep_or_halve"}})
                        return fails
                if got_ack[ep] and pmode == 1 and mode == 1 and rttb != "-":
                    rtt = c13.bits_to_float(rttb)
                    init = min(int(4380.0 / rtt), 2**32 - 1) if rtt > 0 else 2**32 - 1
                    if rate > max(2 * prate, init):
                        fails.append({"oracle": "slowstart_double", "detail": "%s: slow start %d -> %d exceeds max(2x, %d)" % (ep, prate, rate, init),
                                      "signature": {"oracle": "slowstart_double"}})
                        return fails
            last[ep] = (rate, mode, rttb)
            got_ack[ep] = False
    return fails
