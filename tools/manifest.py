#!/usr/bin/env python3
"""Regenerates MANIFEST.json from the table below (kept in one place so it is always valid)."""
import json, os
ROOT = os.path.dirname(os.path.dirname(os.path.abspath(__file__)))
props = [json.loads(l) for l in open(os.path.join(ROOT, "properties.jsonl"))]

CHECKS = {
 "C16": {
  "text": "Lean theorems on the executable codec/CRC model: round trip for every representable frame (C16_roundtrip), totality, exact-length parsing (no trailing / missing bytes, unknown type/enum rejected, SYN only at 1472 bytes), generated CRC table = bitwise LFSR of the generated polynomial; model tied to Frame::write/Frame::read/crc::compute by byte-exact correspondence streams on every run; <=4-flip rejection sampled on the implementation and (see DESIGN 6/C16) proved on the model where stated in evidence.partial.",
  "note": "Trusted: Lean kernel (axioms propext/Classical.choice/Quot.sound only), tools/extract_consts.py, harness+driver text codecs; bytes modelled as Nat < 256.",
  "technique": "Lean 4 proof over hand-written executable model + differential correspondence (harness vs lean_exe driver) + translator-regenerated constants",
  "design_ref": "DESIGN.md section 6 / C16",
 },
 "C20": {
  "text": "Lean theorems on the executable packet-sender model: for every sequence of enqueue / emit(flush id) / acknowledge(any base id) / fragment-ack operations the sender survives, send_buffer_size equals queued payload bytes plus payload bytes in the send window and the allocation counter equals the fragment-rounded window bytes (C20_inv); no counter subtraction ever underflows (C20_no_underflow); empty queue and window give 0 (C20_zero). Model tied to the code by byte-exact correspondence of two real HalfConnections under loss/dup/reorder with a probe of (total_size, queued bytes, window bytes, alloc) every few ticks; the same invariant is evaluated directly on the implementation's probe.",
  "note": "Trusted: Lean kernel (propext, Quot.sound), extract_consts.py, harness/driver, cfg(uflow_verif) read-only probe; ring buffer modelled as FIFO of ids base..next.",
  "technique": "Lean 4 invariant proof by induction over operation sequences + differential correspondence on generated two-endpoint scenarios",
  "design_ref": "DESIGN.md section 6 / C20",
 },
 "C04": {
  "text": "Lean theorems on the executable models: slicing of any payload up to MAX_PACKET_SIZE into <= 65536 valid fragments whose concatenation is the payload (C04_slices, C04_emit_wf); the fragment buffer reassembles any order with any repetition, first write wins (C04_fragbuf, C04_first_write_wins); an assembly-window slot fed any mix of genuine fragments and header-inconsistent ones (first one genuine) yields the packet exactly once, at the last missing fragment, byte-exact, and ignores everything else (C04_tryAdd, C04_tryAdd_once, C04_tryAdd_forged, C04_tryAdd_closed, single-fragment variants); every emitted data frame is <= 1472 bytes (C04_frame_size, C04_dfePush, C04_dfeFinalize). Tied to the code by hc correspondence (size sweeps around k*1448, permuted/duplicated/lost fragments, flush budgets cutting packets, slot reuse after window wrap, forged fragments) and by implementation-side oracles (byte-exact, exactly-once, frame size).",
  "note": "Trusted: Lean kernel (propext, Classical.choice, Quot.sound), extract_consts.py, harness/driver; FragmentBuffer storage modelled lazily.",
  "technique": "Lean 4 proofs (induction over fragment feeds, emitter invariant) + differential correspondence on generated two-endpoint scenarios",
  "design_ref": "DESIGN.md section 6 / C04",
 },
 "C03": {
  "text": "Every Rust panic site and unbounded loop of the codec, packet sender/receiver, frame queue, rate controller and half connection is an explicit Trap outcome of the executable Lean models. Theorems: the parser is total (C16); the packet receiver never traps and all its loops terminate, for every datagram with arbitrary field values (incl. ids >= 2^32, channels >= 64), receive and resynchronise(any id) (C03_precv_notrap, C03_precv_step with invariant, C03_precv_handleDatagram/receive/resynchronize); the rate controller's bisection terminates and its no-trap conditions are characterised (Props/C03Rate); the frame queue never traps in any reachable state (C15_no_trap). Hostile correspondence streams (CRC-valid frames with arbitrary field values injected as raw bytes into a live connection, noise, 0 ms step spacings, tiny rate limits) compare trap/hang behaviour of model and code exactly, and the implementation-side oracle demands no panic/hang at all. Six genuine defects were found this way and repaired (F1 F4 F5 F6 F7 F16).",
  "note": 'Partial: no-trap theorems for the composed half connection (emitters, frame queue window advancement) and for client/server step are not complete; there the claim rests on exact trap correspondence plus the no-trap oracle over the hostile streams. Trusted: harness catch_unwind + watchdog.',
  "technique": 'Lean 4 models with explicit trap outcomes + no-trap/termination theorems per component + hostile differential correspondence',
  "design_ref": "DESIGN.md section 6 / C03",
 },
 "C06": {
  "text": "Lean theorems for every run of the packet-receiver model (any datagrams, any field values, receive and resynchronise operations, any window size and base): C06_recv_alloc (the allocation counter equals the sum over the assembly slots, slot keys distinct, counter <= fragment-rounded limit), C06_recv_held (undelivered payload bytes <= counter <= limit; an active slot is charged (last+1)*1448; delivered-pending data only in closed slots and no larger than their charge), C06_recv_state_bounded (<= W slots, 64 channels); the queue of pending acknowledgement groups holds at most ceil(window/32) groups (C06_ackq_bounded, under the ghost hypothesis that frame ids do not lap the 32-bit space while groups are pending; C06_ackq_unbounded_under_wrap_witness shows the hypothesis is needed, C06_ackq_unbounded_without_drop_witness documents defect F3); sender side C06_emit_alloc_le. Tied to the code by hc correspondence in which a cfg-only probe returns the implementation's own alloc counters, assembly-buffer capacity and undelivered payload bytes after every tick, compared exactly with the model and checked against the limits. Hostile streams (fragment counts up to 65536, never-completing packets, cross-channel parents, application not reading) found defect F2 (repaired).",
  "note": 'Trusted: Lean kernel (propext, Classical.choice, Quot.sound), extract_consts.py, harness/driver, read-only probe. Residual: after ~2^20 sync frames without a single ack leaving, frame ids can lap the 32-bit space and the ack queue bound fails (witness theorem; not practical). Allocator overhead is outside the model.',
  "technique": 'Lean 4 invariant proofs over all receiver runs + differential correspondence with a counter probe',
  "design_ref": "DESIGN.md section 6 / C06",
 },
 "C13": {
  "text": 'Lean theorems on the leaky-bucket model, for EVERY floating-point behaviour (FloatOps abstract) and every interleaving of step / flush / send / receive / frame handlers: C13_interval (bytes emitted over any event list <= max(credit at start, -1472) + sum of the credit refills of the steps in it + 1472; refills are what fill_flush_alloc adds, capped at rate*rtt by C13_fill_cap), C13_interval_between_steps (between two steps at most credit + 1472 bytes, however often flush is called), C13_frame_needs_credit (no frame while the credit is negative; the credit is debited by exactly the bytes sent), C13_credit_floor (never below -1472; every frame <= 1472 bytes), C13_emitters (the same contract for each of the three emitters), C13_step_fill, C13_flush_idempotent_credit. The Float instance is bit-exact with the code (flush_alloc, rate, rtt bits compared in every probe). The numeric bound bytes(t1,t2] <= ceiling*(t2-t1+rtt)+1472 is evaluated on the implementation over all pairs of emission instants (ceilings from 1472 B/s, backlogs, 0.1 ms..10 s cadences, repeated flushes, pauses). Found and repaired F14/F15 (per-step rounding) and F13 (ceiling not re-applied).',
  "note": 'Trusted: Lean kernel (propext, Classical.choice, Quot.sound), extract_consts.py, harness/driver. Modelled not verified: that the float refill rate*dt is numerically <= ceiling*dt (IEEE arithmetic): the theorems bound bytes by the sum of refills, the numeric step from refills to ceiling*(dt+rtt) is checked by the oracle on the bit-exact instance.',
  "technique": 'Lean 4 proofs over all event interleavings and all FloatOps + bit-exact differential correspondence + sliding-interval oracle',
  "design_ref": "DESIGN.md section 6 / C13",
 },
 "C14": {
  "text": 'Lean theorems for EVERY floating-point behaviour (FloatOps abstract) on the TFRC sender model: C14_ceiling / C14_ceiling_run (rate <= max_send_rate in every reachable state, ceilings >= 1472), C14_floor_nofb, C14_floor_fb_eqn, C14_floor_run / C14_bounds_run (floor and ceiling along runs; the one side condition initRate(rtt) >= 23 is shown necessary by witness theorems), C14_nofb_monotone(+_run) (no increase, keep-or-halve without feedback), C14_slowstart (<= max(2x, W_init/rtt)), C14_eqn / C14_eqn_enter (<= max(X_Bps, floor); bisection exit condition exactly: C14_tcpInv_exact), C14_rtt (EWMA). The proofs found defect F17 (rate below floor) before any test did; F13 F6 F7 F16 found by the oracle; all repaired and mirrored. Bit-exact Float instance compared with the code in every probe; per-clause oracle on the implementation.',
  "note": 'Trusted: Lean kernel (propext, Classical.choice, Quot.sound), extract_consts.py, harness/driver. Modelled not verified: IEEE accuracy of the throughput equation (theorems quantify over all FloatOps). Residual: floor on the first slow-start feedback needs initRate(rtt) >= 23, i.e. an RTT sample below 190 s.',
  "technique": 'Lean 4 proofs over all FloatOps (invariants along runs, witness theorems for false variants) + bit-exact differential correspondence + per-clause oracle',
  "design_ref": "DESIGN.md section 6 / C14",
 },
 "C15": {
  "text": "Lean theorems on the executable frame-queue model (frame log, ack-group validation, reorder buffer): C15_unknown_frame_noop (a group naming any id outside the log changes nothing), C15_bad_nonce_noop (all ids logged but nonce != XOR of the logged nonces of the claimed frames: nothing changes), C15_accept_sound / C15_acked_fragments_sound (state changes or fragments are acknowledged only for logged, previously unacknowledged, claimed frames under the right nonce), C15_replay_noop + C15_idempotent (a replayed group is a no-op: no second RTT sample, loss event or rate feedback), C15_log_preserved, C15_accept_marks_acked, C15_window_stale_noop (stale / out-of-range window bases ignored), C15_empty_group_noop; C15_no_trap / C15_run_no_trap (in every state reachable by push / acknowledge / advance / forget / feedback, acknowledgeGroup, advanceTransferWindow and forgetFrames never trap; invariant WInv). Twin-run correspondence: a baseline scenario and a copy differing only by injected acknowledgements (replays, wrong nonce, unknown/forgotten/future ids, ids straddling the u32 wrap) must give identical sender outputs on the implementation and model = implementation on both. Found and repaired F8.",
  "note": "Trusted: Lean kernel (propext, Classical.choice, Quot.sound), extract_consts.py, harness/driver.",
  "technique": "Lean 4 proofs on the frame-queue model (no-op / soundness / idempotence theorems with non-vacuity examples) + twin-run differential correspondence",
  "design_ref": "DESIGN.md section 6 / C15",
 },
 "C07": {
  "text": "Lean theorems (half connection abstract). Server: C07_server_connect_sound(_frame), C07_server_nonce_provenance, C07_server_connect_once, C07_forged_noop_server, C07_undecodable_noop, C07_refusal_server / C07_accept_only_if, C07_agreement / _frames / _exchange (both ends derive matching sequence bases and limits). Client: C07_client_connect_sound / _transition / _sound_step (Connect only from Pending on a SYN-ACK echoing the client's own nonce; exactly one Connect, first event), C07_client_no_return_to_pending, C07_client_connect_at_most_once, C07_client_forged_synAck_noop, C07_client_forged_hsError_noop, C07_client_dup_synAck_resends_ack, C07_client_server_frames_noop, C07_client_refusal(_map,_step). Tied to real Client/Server by ep correspondence over loopback sockets with forged, stale and replayed handshake frames; oracle on nonce chains, first frame ids and refusal codes.",
  "note": 'Trusted: Lean kernel (propext, Classical.choice, Quot.sound), extract_consts.py, relay harness, loopback UDP.',
  "technique": 'Lean 4 proofs over server and client runs + differential correspondence over real sockets + oracle',
  "design_ref": "DESIGN.md section 6 / C07",
 },
 "C08": {
  "text": "Lean theorems: C08_client_stream (the event list of every client run is [], [Error e], or Connect :: Receive* ++ ([] | [Disconnect] | [Error Timeout]); regex form), C08_client_stream_monitor, C08_client_quiet_after_terminal (no event, only DisconnectAck replies after the end), per-transition case lemmas; server: C08_server_stream(_general) / C08_server_step (for every run from init and every address the labels about it are accepted by the monitor idle -Connect-> conn -Receive*-> conn -Disconnect|Error Timeout-> idle, idle -Error-> idle, drop -> idle, ending in the phase of the final state; well-formedness invariant WF), per-handler lemmas (handleSyn, handleHsAck, handleDisconnect(Ack), handleTraffic, handleTimer, activeTimeoutStep, stepActiveStep, drop). Tied to the real endpoints by ep correspondence incl. crossing disconnects; attempt-counting monitor evaluated on the implementation's event streams.",
  "note": 'Trusted: Lean kernel (propext, Classical.choice, Quot.sound), relay harness. Server result is monitor acceptance per address (no textual regex corollary).',
  "technique": 'Lean 4 proofs (monitor refinement over all runs, half connection abstract) + differential correspondence over real sockets + monitor oracle',
  "design_ref": "DESIGN.md section 6 / C08",
 },
 "C09": {
  "text": 'Lean theorems: C09_discGate_iff / C09_flush_gate_client / C09_flush_gate_server (the disconnect request is sent exactly when disconnect_now() was called or disconnect() was called and nothing is queued, pending or awaiting ack; deliverable packets are emitted before the request / before Disconnect), C09_only_step_enters_closing, C09_retry_budget_client(_entered) (from Closing: <= 10 resends 2 s apart, then exactly one terminal event: Disconnect, or Error(Timeout) only after the whole budget, clock >= t0 + 22000 ms), C09_retry_budget_server (conservation: requests sent + retries left = 10 for the tracked object), C09_server_timer_invariant, C09_left_forever_server, C09_closing_terminal_event_server. Tied to the real endpoints by ep correspondence with loss/dup/reorder of data, ack, disconnect and disconnect-ack frames and blackouts; oracle with directed search for flush-loss scenarios (empty Reliable packets, acks lost).',
  "note": "Partial: 'every earlier Reliable packet is delivered before the peer sees Disconnect' rests on the gate theorem plus the half-connection properties (C02 is not a theorem); server budget is conditional on the tracked object still closing (per-transition link to the Error event). Trusted: relay harness.",
  "technique": 'Lean 4 proofs over client/server runs + differential correspondence over real sockets + oracle with directed search',
  "design_ref": "DESIGN.md section 6 / C09",
 },
 "C10": {
  "text": "Lean theorems under the virtual clock: server (full strength): C10_deadline_invariant_server (every active entry's deadline = clock of the step that last processed a data/sync/ack frame of, or established, that connection + active_timeout), C10_timeout_sound_server, C10_timeout_prompt_server, C10_deadline_handleTraffic/HsAck_server; client: C10_timeout_origin_client, C10_timeout_prompt_client, C10_deadline_step_client, C10_handshake_budget (no Connect => at most 10 SYN copies; Error(Timeout) only after all 10 and a clock >= 22000 ms), C10_timeout_sound_client_partial(_sound). The full client soundness statement is FALSE of model and code: C10_timeout_sound_client_witness (active_timeout 15 s, SYN-ACK processed at 20 s => [Connect, Error(Timeout)] in one step) = known finding F9, reproduced on the real client by the ep oracle and reported as KNOWN-FINDING (the one-line repair makes the repo's own client_active_timeout test flaky, so it is recorded, not applied). Tied to real endpoints by ep correspondence; oracle: timeouts only after the configured silence, within one step after it, retry budgets.",
  "note": 'Open finding F9 (known_findings.json). Trusted: virtual clock hook, relay harness.',
  "technique": 'Lean 4 proofs (deadline invariants with ghost clocks, witness theorem for the false clause) + differential correspondence over real sockets + oracle',
  "design_ref": "DESIGN.md section 6 / C10",
 },
 "C17": {
  "text": 'Lean theorems on the server model for every half-connection behaviour: C17_inv (in every reachable state pending+active entries <= max_active_connections and tracked entries <= max_total_connections), C17_syn_adds_only_below, C17_frame_counts, C17_hsAck_counts, C17_other_ops_counts (no other operation adds entries or turns one pending/active), C17_refuse / C17_refuse_frame (a SYN at a reached limit gets exactly one ServerFull reply and changes nothing), C17_release / C17_release_drop. Defect F10 (limits joined by &&, pending not counted) found by the oracle, repaired, and the invariant proved on the repaired model. Tied to the real Server by ep correspondence (limits 1..8, up to 8 overlapping clients).',
  "note": 'Trusted: Lean kernel (propext, Quot.sound), extract_consts.py, relay harness, loopback UDP ordering.',
  "technique": 'Lean 4 invariant proof over server runs (well-formedness invariant WF, half connection abstract) + differential correspondence over real sockets + oracle',
  "design_ref": "DESIGN.md section 6 / C17",
 },
 "C18": {
  "text": 'Lean theorems: C18_ratio_owed / C18_ratio / C18_ratio_strict — for every run of the server model and every address without a Connect event, 1472*bytes_sent <= 25*(1+RESEND_COUNT)*bytes_received, hence sent < received whenever anything was sent (ghost counters over arbitrary arrival histories, potential function for owed SYN-ACK resends); ingredients C18_frame_lengths, C18_syn_datagram_full (a SYN parses only at 1472 bytes, via C16), C18_only_syn_triggers, C18_syn_outcomes, C18_timer_accounting, C18_other_sends; C18_undersized_ignored. Constants (resend count, frame sizes) come from the translator, so changing them breaks the proof. Tied to the real Server by ep correspondence with raw peers.',
  "note": 'Trusted: Lean kernel (propext, Quot.sound), extract_consts.py, relay harness.',
  "technique": 'Lean 4 proof by invariant over server runs with ghost byte counters + differential correspondence over real sockets + oracle',
  "design_ref": "DESIGN.md section 6 / C18",
 },
 "C01": {
  "text": "Lean theorems for the composed system (Props/C01Sys): the real model functions of the packet sender (enqueue / emit / acknowledge), the fragment slicer and the packet receiver (handle_datagram / receive), connected by a network that may deliver ANY emitted fragment datagram any number of times in any order (loss = never, duplication, reordering, unbounded delay) and hand the sender ANY earlier window base as an acknowledgement. For every run: C01_sys_in_order (per channel, the payloads delivered, in delivery order, are a sublist of the payloads submitted on that channel, in submission order), C01_sys_at_most_once, C01_sys_delivered_is_emitted (byte-exact, right channel, right packet), C01_sys_link (the invariant tying receiver ids to sender emission indices), C01_sys_projects (the system's sender / receiver components are runs of the component models, so all component theorems apply), window 2^k (k <= 19), any base id incl. next to the 2^20 wrap. The only network hypothesis is freshness (Fresh / AckFresh): no datagram or acknowledgement older than about 2^20 packet ids is delivered (in the real system the 32-bit frame window enforces this; without acknowledgements no hypothesis is needed: C01_sys_fresh_automatic_noack). Component theorems: C01_channel_ids_increase etc. over all receiver runs incl. resynchronise, C05 (sender), C04 (fragments), C16 (codec). Tied to the code by two-endpoint hc correspondence (every frame byte-exact, every delivery) under drop / duplication / delay / reordering / bit flips, ids at the 2^20 / 2^32 wraps, windows 4..4096, header-threshold leads, window-tail-first schedules; implementation-side oracle: per channel the deliveries are a duplicate-free byte-exact subsequence of the submissions.",
  "note": 'Residual: the freshness hypothesis is not derived from a model of the frame layer (frames older than the newest one seen are discarded, at most 4096 frames outstanding): that step is covered by the correspondence runs only; resynchronise is part of the receiver theorems but not of the composed system. Trusted: Lean kernel (propext, Classical.choice, Quot.sound), extract_consts.py, harness/driver, simulated network.',
  "technique": 'Lean 4 proof of the composed sender / network / receiver system (invariant over all runs) + component theorems + differential correspondence of two-endpoint runs + subsequence oracle',
  "design_ref": "DESIGN.md section 6 / C01 and section 12",
 },
 "C02": {
  "text": "Lean theorems: sender (all operation sequences): C02_leads_correct / C02_leads_exact (every emitted packet's channel / window parent lead is 0 exactly when no Reliable packet of the channel / of any channel is still in the window, otherwise the exact distance to the most recent one; the 16-bit truncation never bites for windows <= 65536), C02_emitted_channel_lt; receiver (all runs): C02_no_overtake (a packet with channel parent lead k is delivered only after a packet at or beyond the parent position was taken from that channel, or when the window base had already passed the parent), C02_window_advance_justified (the base only passes ids that a received packet's window parent lead vouches for), witnesses that a peer lying about leads / a resynchronise can make the receiver overtake (C02_overtake_witness_*). Composed system (Props/C01Sys): C02_sys_no_skip (when a later packet of a channel is delivered, every earlier Reliable packet of that channel was delivered before it or the receive window base had already passed it) and C02_sys_window_waits_for_reliable (the base passes a Reliable packet only after it was completely received): with an honest sender the hostile-lead witnesses cannot occur. Liveness (eventual delivery) is checked on fault-prefix / fair-suffix schedules: every Reliable packet delivered exactly once at quiescence, nothing pending, send_buffer_size 0 after a sync round. Found (with C06) and repaired F2.",
  "note": "Partial: eventual delivery is not a theorem (needs fairness + rate dynamics); one link of the composed safety argument is missing (a completely received Reliable packet is taken by receive() before the base passes it: completeness of the delivery pass). Trusted: harness/driver, simulated network.",
  "technique": 'Lean 4 proofs (sender leads exact, receiver no-overtake, witnesses for hostile leads) + differential correspondence + ordering/quiescence oracle',
  "design_ref": "DESIGN.md section 6 / C02 and section 12",
 },
 "C05": {
  "text": 'Lean theorems over all sender operation sequences: C05_emit_order (emitted ++ queued = submitted with only TimeSensitive entries removed, order preserved), C05_emitted_sublist, C05_ids_consecutive / C05_ids_distinct, C05_window_bound, C05_alloc_bound, ghost run = model run (C05_ghost_run_state, C05_ghost_entry_sound); receiver side: C01 theorems. Tied to the code by two-endpoint hc correspondence on a loss-free FIFO network (latency 0..150 ms): all modes / channels / sizes incl. packets of 65..140 fragments cut across flushes with acks in between, bursts exceeding the credit and both windows, small allocation limits, cadences 0.25..100 ms, both directions; oracle: the delivered sequence equals the submitted one with only TimeSensitive packets possibly missing (order-preserving embedding by dynamic programming).',
  "note": 'Partial: the refinement to a FIFO queue across the (loss-free) network is not one theorem; its two halves are (sender order, receiver order). Trusted: harness/driver, simulated network.',
  "technique": 'Lean 4 proofs over all sender operation sequences + differential correspondence + FIFO-equality oracle',
  "design_ref": "DESIGN.md section 6 / C05 and section 12",
 },
 "C12": {
  "text": "Lean theorems on an instrumented copy of the emitters (wire trace of every (packet uid, fragment, resend flag, flush id) pushed into a frame; erasure theorems flushT_erase / execT_erase show the instrumented run is the model's run): C12_pending_once (over any event list each fragment is pushed at most once with resend=false and is absent from both queues forever after), C12_emit_resend_flag (resend flag = Persistent|Reliable; TimeSensitive packets carry their flush id), C12_ts_wire (fragment 0 of a TimeSensitive packet is only ever pushed in the flush it was queued for; never from the resend queue), C12_ts_drop_queue / C12_ts_stale_after_step / C12_pendingInner_expired / C12_ts_drop_partial (stale packets are removed from the send queue, and - the repaired defect F18 - from the pending queue), C12_no_resend_after_ack (a fragment acknowledged or whose packet left the window is never pushed again, over any run), C12_resend_until_ack (a resend-flagged fragment stays in the resend queue until dead; backoff rtt*2^count capped: C12_resendLoop_push), C12_heap (push/pop are permutations). Tied to the code by hc correspondence comparing every datagram of every emitted data frame under low credit ceilings, acks between fragments, loss and duplication; wire-level oracle on the implementation (at-most-once, TimeSensitive drop, fragment 0 first, only TimeSensitive skipped, nothing after ack / window passed).",
  "note": "Partial: C12_ts_drop_partial keeps the hypothesis that fragment 0 was not acknowledged (needs a FrameQ invariant that only sent fragments are acked); 'retransmitted until acknowledged' as liveness (eventually offered again) is checked on generated schedules only. Trusted: harness/driver, fragment identification by fnv of pseudo-random payloads.",
  "technique": 'Lean 4 proofs on an instrumented emitter model with erasure theorems + differential correspondence per emitted datagram + wire-level oracle',
  "design_ref": "DESIGN.md section 6 / C12",
 },
 "C11": {
  "text": 'Lean theorems for the sync / resync mechanism, per step and for every state: C11_sync_emitted (exact characterisation of emit_sync_frame: due iff max(RTO, 2 s) elapsed and frames unacked / packet window idle / keepalive due; withheld only for negative credit), C11_sync_frame_content (carries the next frame id iff frames are unacknowledged, the next packet id iff the packet window is non-empty and nothing awaits (re)sending), C11_sync_handled(_total) (the receiver resynchronises both windows and always sets the reply flag), C11_sync_answered(_flush) / C11_sync_answer_postponed (the next flush with credit emits an ack carrying both current window bases; without credit the reply stays owed), C11_ack_advances / C11_window_reopens_frames / _packets / C11_ack_stale_noop, C11_sync_rearmed*, C11_only_flush_touches_sync, C11_sync_becomes_due, C11_sync_emitted_flush, C11_full_window_cycle (full frame window, all acks lost: sync -> answer -> ack reopens the window). Scenarios: warm-up, window filling (also with Unreliable-only traffic and packets queued behind), blackouts of 5 ticks .. tens of minutes in one or both directions, order-of-magnitude changes of latency / cadence, then loss-free operation; oracle: quiescence reached, every Reliable packet and post-fault probes of the Unreliable / Persistent / Reliable modes delivered, TimeSensitive probe at quiescence delivered, a fresh 58 kB backlog drains faster than the rate floor allows. Found (with C13/C14) and repaired F12.',
  "note": 'Partial: liveness as a whole (the cycle repeats until something gets through; rate recovery) is established on generated schedules only; C11_full_window_cycle assumes the handlers do not trap (C15_no_trap, C03_precv_* give that for the frame queue and the packet receiver). Trusted: harness/driver, simulated network.',
  "technique": 'Lean 4 proofs of the per-step mechanism (23 theorems) + differential correspondence + recovery/throughput oracle on blackout schedules',
  "design_ref": "DESIGN.md section 6 / C11 and section 12",
 },
 "C19": {
  "text": "Lean theorems on the allocator's view of the one hand-built heap object (FragmentBuffer new/finalize): C19_finalize_layout (for every fragment count and every history of writes — any order, any repetition — the box handed to the application is dropped with exactly the size and alignment of its block, and holds total_size bytes), C19_wf_writes (total_size never exceeds the buffer), C19_raw_mismatch + witness (the re-boxing the code used to have breaks the contract exactly when the length is not the full buffer size: defect F11, repaired). Tied to the code by a checking global allocator in the harness (layout recorded at alloc, compared at every dealloc/realloc; static table, no allocation of its own): sessions of half connections and of real Client/Server endpoints with all size classes, cut off at arbitrary points, are run three times in one process; the allocator's verdict (mismatch count, growth of live bytes between identical sessions after every endpoint was dropped) is compared with the model's ledger and must be 0 / 0.",
  "note": "Partial: `unsafe impl Send/Sync` is not expressible in an executable model (not decided); absence of leaks through the Rc/Weak graph is established on the generated sessions, not as a theorem. Trusted: Rust's own pairing of alloc/dealloc in safe code, std containers, harness/src/heap.rs.",
  "technique": "Lean 4 proof on a ledger model of the unsafe re-boxing + checking global allocator on the implementation (differential: model ledger vs allocator verdict)",
  "design_ref": "DESIGN.md section 6 / C19",
 },
}

NOT_YET = "check not built yet (work in progress; see DESIGN.md section 11 for the order)"

def main():
    checks = []
    for pid, c in CHECKS.items():
        checks.append({
            "property_id": pid,
            "quick_cmd": "./check %s --tier quick" % pid,
            "thorough_cmd": "./check %s --tier thorough" % pid,
            "evidence_file": "/verif/evidence/%s.json" % pid,
            "replay_cmd_template": "./check %s --replay {path}" % pid,
            "engine": "lean4-proof+correspondence",
            "level_claimed": {"category": "proof", "text": c["text"], "design_ref": c["design_ref"]},
            "level_note": c["note"],
            "technique": c["technique"],
        })
    m = {
        "version": 1,
        "setup_cmd": "./setup.sh",
        "hooks": {
            "guard": "--cfg uflow_verif",
            "enable": "harness/.cargo/config.toml sets rustflags = [\"--cfg\", \"uflow_verif\"]; the harness crate depends on /repo by path, so every check rebuilds /repo's working tree with the hooks on",
            "baseline_off_cmd": "cd /repo && (cargo nextest run --workspace --no-fail-fast --tool-config-file pb:/w/lib/nextest.toml --profile pb --test-threads 8 --offline || cargo test --workspace --no-fail-fast --offline)",
            "source_commits": ["fe3b49a", "b6d35f4", "18cf990", "980c195"],
            "add_only": True,
        },
        "engines": [{"name": "lean4-proof+correspondence", "path": "/verif/check", "serves_properties": sorted(CHECKS),
                     "kind_free_text": "Lean 4 theorems about executable models (lean/Uflow), constants regenerated from /repo by tools/extract_consts.py, models run against the real code through harness/ (Rust, --cfg uflow_verif) and a lean_exe driver on identical operation scripts"}],
        "checks": checks,
        "notes": "See DESIGN.md. Known findings: known_findings.json.",
        "not_applicable": [{"property_id": p["id"], "reason": NOT_YET} for p in props if p["id"] not in CHECKS],
    }
    json.dump(m, open(os.path.join(ROOT, "MANIFEST.json"), "w"), indent=1)

if __name__ == "__main__":
    main()
