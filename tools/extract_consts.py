#!/usr/bin/env python3
"""Translator: regenerate Uflow/Gen/Consts.lean and Uflow/Gen/CrcTable.lean from /repo/src.

Every numeric protocol constant used by the Lean models is read from the Rust sources on every
run of every check.  The evaluator understands integer literals (dec/hex/bin, `_` separators,
type suffixes), `+ - * / << >> | &`, parentheses, `as <int type>` casts (with truncation),
references to other constants (optionally path-qualified), `u16::MAX` etc., and `.min(..)` /
`.max(..)` method calls.  Anything else makes extraction fail loudly: a constant is never
defaulted.
"""
import re, sys, os, json

REPO = os.environ.get("UFLOW_REPO", "/repo")
OUT = os.path.join(os.path.dirname(os.path.abspath(__file__)), "..", "lean", "Uflow", "Gen")

class ExtractError(Exception):
    pass

INT_TYPES = {"u8": 8, "u16": 16, "u32": 32, "u64": 64, "usize": 64, "i32": 32, "i64": 64, "isize": 64}

def strip_comments(src):
    src = re.sub(r"/\*.*?\*/", "", src, flags=re.S)
    src = re.sub(r"//[^\n]*", "", src)
    return src

def find_items(src):
    """yield (name, type, expr) for const/static items (top level or nested)."""
    src = strip_comments(src)
    for m in re.finditer(r"\b(?:const|static)\s+([A-Z][A-Z0-9_]*)\s*:\s*([^=;]+?)\s*=\s*(.*?);", src, flags=re.S):
        yield m.group(1), m.group(2).strip(), m.group(3).strip()

TOK = re.compile(r"\s*(0x[0-9A-Fa-f_]+|0b[01_]+|[0-9][0-9_]*\.[0-9_]+|[0-9][0-9_]*|[A-Za-z_][A-Za-z0-9_]*(?:::[A-Za-z_][A-Za-z0-9_]*)*|<<|>>|[-+*/()|&.,\[\]])")

def tokenize(expr):
    pos = 0; out = []
    expr = expr.strip()
    while pos < len(expr):
        m = TOK.match(expr, pos)
        if not m:
            raise ExtractError("cannot tokenize %r at %d" % (expr, pos))
        out.append(m.group(1)); pos = m.end()
    return out

class Parser:
    def __init__(self, toks, env):
        self.t = toks; self.i = 0; self.env = env
    def peek(self):
        return self.t[self.i] if self.i < len(self.t) else None
    def take(self, x=None):
        tok = self.peek()
        if x is not None and tok != x:
            raise ExtractError("expected %r got %r in %r" % (x, tok, self.t))
        self.i += 1
        return tok
    def parse(self):
        v = self.p_or()
        if self.peek() is not None:
            raise ExtractError("trailing tokens %r" % self.t[self.i:])
        return v
    def p_or(self):
        v = self.p_and()
        while self.peek() == "|":
            self.take(); v = v | self.p_and()
        return v
    def p_and(self):
        v = self.p_shift()
        while self.peek() == "&":
            self.take(); v = v & self.p_shift()
        return v
    def p_shift(self):
        v = self.p_add()
        while self.peek() in ("<<", ">>"):
            op = self.take(); r = self.p_add()
            v = v << r if op == "<<" else v >> r
        return v
    def p_add(self):
        v = self.p_mul()
        while self.peek() in ("+", "-"):
            op = self.take(); r = self.p_mul()
            v = v + r if op == "+" else v - r
            if isinstance(v, int) and v < 0:
                raise ExtractError("negative intermediate (unsigned underflow)")
        return v
    def p_mul(self):
        v = self.p_cast()
        while self.peek() in ("*", "/"):
            op = self.take(); r = self.p_cast()
            if op == "*":
                v = v * r
            else:
                v = v // r if isinstance(v, int) and isinstance(r, int) else v / r
        return v
    def p_cast(self):
        v = self.p_post()
        while self.peek() == "as":
            self.take(); ty = self.take()
            if ty in INT_TYPES:
                v = int(v) & ((1 << INT_TYPES[ty]) - 1)
            elif ty in ("f64", "f32"):
                v = float(v)
            else:
                raise ExtractError("cast to %s" % ty)
        return v
    def p_post(self):
        v = self.p_atom()
        while self.peek() == ".":
            self.take(); meth = self.take()
            self.take("(")
            a = self.p_or()
            self.take(")")
            if meth == "min": v = min(v, a)
            elif meth == "max": v = max(v, a)
            else: raise ExtractError("method %s" % meth)
        return v
    def p_atom(self):
        tok = self.take()
        if tok is None:
            raise ExtractError("unexpected end")
        if tok == "(":
            v = self.p_or(); self.take(")"); return v
        if tok == "-":
            return -self.p_atom()
        if re.match(r"0x", tok): return int(tok.replace("_", ""), 16)
        if re.match(r"0b", tok): return int(tok.replace("_", "")[2:], 2)
        if re.match(r"[0-9]", tok):
            tok = tok.replace("_", "")
            return float(tok) if "." in tok else int(tok)
        # identifier / path
        m = re.match(r"(u8|u16|u32|u64|usize)::MAX$", tok)
        if m: return (1 << INT_TYPES[m.group(1)]) - 1
        name = tok.split("::")[-1]
        if name in self.env:
            return self.env[name]
        raise ExtractError("unknown identifier %r" % tok)

def strip_suffix(expr):
    # 4096u32 style suffixes
    return re.sub(r"\b([0-9][0-9_]*)(u8|u16|u32|u64|usize|i32|i64|isize)\b", r"\1", expr)

def evaluate(expr, env):
    return Parser(tokenize(strip_suffix(expr)), env).parse()

def load(path):
    with open(os.path.join(REPO, path)) as f:
        return f.read()

def extract():
    env = {}      # rust name -> value (for cross references)
    out = {}      # lean name -> value

    def take(path, names, prefix="", required=True):
        items = {n: (t, e) for n, t, e in find_items(load(path))}
        for n in names:
            if n not in items:
                if required:
                    raise ExtractError("%s: constant %s not found" % (path, n))
                continue
            t, e = items[n]
            if t.startswith("["):
                continue
            v = evaluate(e, env)
            env[n] = v
            out[prefix + n] = v

    # order matters: later files reference earlier constants
    take("src/lib.rs", ["PROTOCOL_VERSION", "MAX_FRAME_WINDOW_SIZE", "MAX_PACKET_WINDOW_SIZE", "INTERNET_MTU", "UDP_HEADER_SIZE", "MAX_FRAME_SIZE"])
    take("src/frame/serial/mod.rs", [
        "FRAME_HEADER_SIZE", "FRAME_CRC_SIZE", "FRAME_OVERHEAD",
        "HANDSHAKE_SYN_FRAME_ID", "HANDSHAKE_SYN_ACK_FRAME_ID", "HANDSHAKE_ACK_FRAME_ID", "HANDSHAKE_ERROR_FRAME_ID",
        "DISCONNECT_FRAME_ID", "DISCONNECT_ACK_FRAME_ID", "DATA_FRAME_ID", "SYNC_FRAME_ID", "ACK_FRAME_ID",
        "HANDSHAKE_SYN_FRAME_PAYLOAD_SIZE", "HANDSHAKE_SYN_ACK_FRAME_PAYLOAD_SIZE", "HANDSHAKE_ACK_FRAME_PAYLOAD_SIZE",
        "HANDSHAKE_ERROR_FRAME_PAYLOAD_SIZE", "DISCONNECT_FRAME_PAYLOAD_SIZE", "DISCONNECT_ACK_FRAME_PAYLOAD_SIZE",
        "DATAGRAM_HEADER_SIZE_MICRO", "DATAGRAM_HEADER_SIZE_SMALL", "DATAGRAM_HEADER_SIZE_LARGE", "DATAGRAM_HEADER_SIZE_MIN",
        "MAX_DATAGRAM_OVERHEAD", "DATA_FRAME_PAYLOAD_HEADER_SIZE", "DATA_FRAME_OVERHEAD", "DATA_FRAME_MAX_DATAGRAM_COUNT",
        "SYNC_FRAME_PAYLOAD_SIZE", "ACK_GROUP_SIZE", "ACK_FRAME_PAYLOAD_HEADER_SIZE", "MAX_CHANNELS", "MAX_FRAGMENTS"])
    take("src/lib.rs", ["CHANNEL_COUNT", "MAX_FRAGMENT_SIZE", "MAX_PACKET_SIZE"])
    take("src/packet_id.rs", ["MASK", "SPAN"], prefix="PACKET_ID_")
    take("src/half_connection/mod.rs", ["INITIAL_RTT_ESTIMATE_MS", "INITIAL_RTO_ESTIMATE_MS", "MIN_SYNC_TIMEOUT_MS", "MAX_SEND_COUNT"])
    take("src/half_connection/send_rate.rs", ["MSS", "INITIAL_TCP_WINDOW", "MINIMUM_RATE"])
    take("src/half_connection/frame_queue.rs", ["INITIAL_RTT_MS"], prefix="FEEDBACK_")
    take("src/server/mod.rs", ["HANDSHAKE_RESEND_INTERVAL_MS", "HANDSHAKE_RESEND_COUNT", "DISCONNECT_RESEND_INTERVAL_MS", "DISCONNECT_RESEND_COUNT", "CLOSED_TIMEOUT_MS"], prefix="SERVER_")
    take("src/client/mod.rs", ["HANDSHAKE_RESEND_INTERVAL_MS", "HANDSHAKE_RESEND_COUNT", "DISCONNECT_RESEND_INTERVAL_MS", "DISCONNECT_RESEND_COUNT", "CLOSED_TIMEOUT_MS"], prefix="CLIENT_")
    take("src/frame/serial/crc.rs", ["INITIAL_CRC"], prefix="CRC_")

    # literals that are not named constants in the source: located by a pattern that pins the
    # syntactic position; failure to match fails extraction
    def lit(path, pattern, name, conv=lambda s: evaluate(s, env)):
        m = re.search(pattern, strip_comments(load(path)), flags=re.S)
        if not m:
            raise ExtractError("%s: pattern for %s not found" % (path, name))
        out[name] = conv(m.group(1))

    lit("src/frame/serial/crc.rs", r"\(reg >> 1\) \^ (0x[0-9A-Fa-f]+)", "CRC_POLY_REFLECTED")
    lit("src/half_connection/send_rate.rs", r"self\.nofeedback_exp_ms = Some\(now_ms \+ ([0-9]+)\);", "NOFEEDBACK_INITIAL_MS")
    lit("src/half_connection/loss_rate.rs", r"self\.entries\.truncate\(([0-9]+)\);\s*\} else", "LOSS_INTERVAL_MAX")
    lit("src/half_connection/mod.rs", r"forget_frames\(now_ms\.saturating_sub\(\(?rtt_ms\*([0-9]+)\)", "FORGET_RTT_MULT")

    # CRC table
    m = re.search(r"static PARTIAL_RESULTS: \[u32; (\d+)\] = \[(.*?)\];", strip_comments(load("src/frame/serial/crc.rs")), flags=re.S)
    if not m:
        raise ExtractError("PARTIAL_RESULTS not found")
    n = int(m.group(1))
    table = [evaluate(x, env) for x in m.group(2).replace("\n", " ").split(",") if x.strip()]
    if len(table) != n:
        raise ExtractError("PARTIAL_RESULTS: %d entries, declared %d" % (len(table), n))
    return out, table

def lean_consts(consts):
    lines = ["-- GENERATED by tools/extract_consts.py from /repo/src on every run. Do not edit.",
             "namespace Uflow.Gen", ""]
    for k in consts:
        v = consts[k]
        if isinstance(v, float):
            lines.append("def %s : Float := %r" % (k, v))
        else:
            lines.append("@[reducible] def %s : Nat := %d" % (k, v))
    lines += ["", "end Uflow.Gen", ""]
    return "\n".join(lines)

def lean_table(table):
    lines = ["-- GENERATED by tools/extract_consts.py from /repo/src/frame/serial/crc.rs on every run. Do not edit.",
             "namespace Uflow.Gen", "", "def crcTableList : List Nat := ["]
    for i in range(0, len(table), 8):
        lines.append("  " + ", ".join("0x%08X" % x for x in table[i:i+8]) + ("," if i + 8 < len(table) else ""))
    lines += ["]", "", "end Uflow.Gen", ""]
    return "\n".join(lines)

def write_if_changed(path, text):
    try:
        if open(path).read() == text:
            return False
    except FileNotFoundError:
        pass
    os.makedirs(os.path.dirname(path), exist_ok=True)
    with open(path, "w") as f:
        f.write(text)
    return True

def main():
    try:
        consts, table = extract()
    except ExtractError as e:
        print("EXTRACT-ERROR: %s" % e)
        return 2
    a = write_if_changed(os.path.join(OUT, "Consts.lean"), lean_consts(consts))
    b = write_if_changed(os.path.join(OUT, "CrcTable.lean"), lean_table(table))
    if "--json" in sys.argv:
        print(json.dumps({"consts": consts, "crc_table_len": len(table), "changed": [a, b]}))
    return 0

if __name__ == "__main__":
    sys.exit(main())
