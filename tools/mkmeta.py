#!/usr/bin/env python3
"""mkmeta.py <id> <property> <change> <needs> <detected_by> : writes seeded/<id>/meta.json in the common format
(after tools/confirm_seed.sh has filled the directory)."""
import json, sys, subprocess
sid, prop, change, needs, det = sys.argv[1:6]
commit = subprocess.run(["git", "-C", "/repo", "rev-parse", "--short", "HEAD"], capture_output=True, text=True).stdout.strip()
meta = {
    "id": sid, "property": prop, "change": change, "needs_to_manifest": needs,
    "demonstration": {"file": "DEMO.rs", "placement": "see the header comment of DEMO.rs"},
    "produced_by": "a sub-agent given only the property text, a scratch worktree of /repo and the one-line descriptions of the earlier "
                   "changes for this property to stay away from; nothing from /verif",
    "confirmed_by_me": {"script": "tools/confirm_seed.sh (private network namespace)",
                        "existing_suite_with_change": "passes except tests flaky on the unchanged tree; suite_with.log",
                        "demo_with_change": "FAILED (demo_with.log)", "demo_without_change": "ok (demo_without.log)", "log": "confirm.log"},
    "applies_to_repo_commit": commit,
    "how_to_run": f"tools/seedtest.sh /verif/seeded/{sid}/patch.diff {prop} 1 2",
    "detected_by": det,
}
json.dump(meta, open(f"/verif/seeded/{sid}/meta.json", "w"), indent=1)
print("wrote", sid)
